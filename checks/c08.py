"""C08 - sub-routine calls follow the C calling convention and isolate the callee (engine H + IL interpreter).

The history dimension decides: callee bodies are compiled by their own transformer, callers take
temporaries from a counter that is never reset, IL locals form one flat namespace - whether a
caller is miscompiled depends on what the compiler instance did before.
"""
from __future__ import annotations

import hashlib
import re

from hist_common import FAULT_EXC, FMTS, HistEngine
from sim import cref, gen_beh, gen_call, il
from sim.core import Chooser, EventLog, Violation, stable_hash

# a statement with eight hybrids; compiled through transform_insn with a cached tree it costs milliseconds, so a
# "long-lived instance" (temporary counter in the hundreds or thousands) is cheap to simulate
WARMUP_BIG = "{ int32_t wq = RsV; RdV = wq++ + wq++ + wq++ + wq++ + wq++ + wq++ + wq++ + wq++; }"
WARMUP_ONE = "{ int32_t wq = RsV; RdV = wq++; }"       # +1 temporary, compiled from a cached tree
WARMUP = [
    "{ int32_t wq = 0; wq++; }",                          # +1 temporary
    "{ int32_t wq = RsV; RdV = wq++ + wq++; }",           # +2
    "{ RdV = clz32(RsV); }",                              # +1
    "{ RdV = clz32(RsV) + clo32(RtV); }",                 # +2
    "{ RdV = RsV; }",                                     # +0
    "{ RdV = revbit32(RsV) + clz32(RtV) + clo32(RsV); }", # +3
]
BUILTIN_LIKE = ["get_npc", "STORE_SLOT_CANCELLED", "WRITE_PRED", "WRITE_REG"]     # names gen_call may give a generated routine
BUNDLED_NAMES = ["clz32", "clz64", "clo32", "clo64", "revbit16", "revbit32", "revbit64", "fbrev", "conv_round", "fcirc_add",
                 "set_usr_field", "get_usr_field"]
# (bundled routine, local) pairs that are not prefixed with the routine's name on the unchanged tree (known finding F4)
KNOWN_F4_BUNDLED = {("fcirc_add", v) for v in ("K_const", "length", "new_ptr", "start_addr", "end_addr", "mask")} | {("conv_round", "conv_val")} | {("trap", "dummy")}
FIXED_CALLERS = [
    # (text, checker name) - bundled routines used the way the shipped corpus uses them
    "{ RdV = clz32(RsV) + clz32(RtV); }",
    "{ RdV = clo32(RsV) + clo32(RtV) + clz32(RsV) + clz32(RtV); }",
    "{ RdV = clz32(clo32(RsV)); }",
    "{ RddV = clz64(RssV) + clo64(RttV); }",
    "{ RdV = revbit32(RsV) ^ clz32(RtV); }",
    "{ RdV = fbrev(RsV) + revbit16(RtV); }",
    "{ RdV = conv_round(RsV, 2) + conv_round(RtV, 0); }",
    "{ RxV = fcirc_add(bundle, RxV, siV, MuV, HEX_REG_ALIAS_CS0); }",
    "{ int32_t mask = 5; RxV = fcirc_add(bundle, RxV, siV, MuV, HEX_REG_ALIAS_CS0) + mask; }",
    "{ int32_t keep = clz32(RsV); RdV = clz32(RtV) + keep; }",
    "{ RdV = (RsV > RtV) ? clz32(RsV) : clo32(RtV); }",
    # enum / packet pass-through arguments
    "{ set_usr_field(bundle, HEX_REG_FIELD_USR_OVF, 1); }",
    "{ RdV = get_usr_field(bundle, HEX_REG_FIELD_USR_LPCFG) + clz32(RsV); }",
    "{ set_usr_field(bundle, HEX_REG_FIELD_USR_LPCFG, clz32(RsV)); }",
    # a value-returning routine with a by-reference operand as a statement of an else arm
    "{ if (RsV > RtV) { RdV = 1; } else { fcirc_add(bundle, RxV, siV, MuV, HEX_REG_ALIAS_CS0); } }",
    # chained assignment of a call result (rejected on the unchanged tree; if accepted, the call has to run first)
    "{ int32_t ca1; int32_t cb1; ca1 = cb1 = clz32(RsV); RdV = ca1 + cb1; }",
    "{ int32_t ca1 = 0; int32_t cb1 = 0; ca1 = cb1 = clz32(RsV) + clo32(RtV); RdV = ca1 - cb1; }",
]


class EngineC08(HistEngine):
    prop = "C08"
    tiers = {"quick": dict(budget_s=55, max_runs=10**9, workers=16),
             "thorough": dict(budget_s=1500, max_runs=10**9, workers=16)}
    nstates = {"quick": 24, "thorough": 48}

    def _load(self):
        super()._load()
        self.extra_texts = sorted(set(self.extra_texts) | {WARMUP_BIG, WARMUP_ONE})

    # ------------------------------------------------------------------ workload
    def generate(self, ch: Chooser, index):
        cfg = "A" if ch.chance(6, 10, "cfg") else "B"
        fmt0 = ch.choice(FMTS, "fmt0")
        g = gen_call.CallGen(ch, cfg, str(index % 100000))
        nfun = ch.randint(1, 4, "nfun")
        funcs = [g.gen_function() for _ in range(nfun)]
        twin = None
        if ch.chance(1, 2, "clone"):
            twin = g.clone_with_other_return_type(ch.choice(funcs, "clone-of"))
            if twin is not None:
                funcs.append(twin)
        callers = [g.gen_caller() for _ in range(ch.randint(1, 4, "ncall"))]
        # routines of special shapes get a caller that exercises the shape
        if twin is not None and all(pt[0] != "ext" for pt, _ in twin["params"]) and ch.chance(2, 3, "call-twin"):
            callers.append(g.gen_caller(force_func=twin))
        if any(f["kind"] == "mixed_sign" for f in funcs) and ch.chance(2, 3, "call-mixed"):
            callers.append(g.gen_caller(force_form="same_arg"))
        if any(f["kind"] in ("void_write", "ext_write_ret") for f in funcs) and ch.chance(1, 2, "call-byref"):
            callers.append(g.gen_caller(force_form=ch.choice(["void_call", "branch_call", "two_byref_calls"], "byref-form")))
        for _ in range(ch.randint(0, 2, "nfixed")):
            t = ch.choice(FIXED_CALLERS, "fixed")
            if cfg == "A" and "mask" in t:
                continue            # named like a local of fcirc_add: known finding F4, configuration B only
            callers.append({"text": t, "stmts": None, "outs": [], "convention": False, "uses": re.findall(r"\b(\w+)\(", t), "form": "fixed"})
        insts = [fmt0]
        ops = []
        if ch.chance(1, 4, "second"):
            fmt = ch.choice(FMTS, "fmt1")
            ops.append({"op": "new_compiler", "fmt": fmt})
            insts.append(fmt)
        # registration before / after warm-up, on either instance
        early = [f for f in funcs if ch.chance(1, 2, "early")]
        late = [f for f in funcs if f not in early]
        # a callee must be registered before a callee that calls it
        order_ok = []
        for f in funcs:
            order_ok.append(f)
        early = [f for f in order_ok if f in early]
        late = [f for f in order_ok if f in late]

        def reg_ops(fs):
            for f in fs:
                if ch.chance(1, 4, "badfirst"):
                    ops.append(dict(gen_call.CallGen.failing_registration(f, ch.draw(4, "badvariant")), op="add_sub", inst=ch.draw(len(insts), "reginst"), expect_fail=True))
                ops.append(dict(gen_call.CallGen.registration(f), op="add_sub", inst=ch.draw(len(insts), "reginst")))
        # nested callees need their callee first: registering in generation order guarantees it only inside one group;
        # across groups a late callee of an early caller makes the early registration fail -> keep generation order globally
        first_late = min([funcs.index(f) for f in late], default=len(funcs))
        early = [f for f in early if funcs.index(f) < first_late]
        late = [f for f in funcs if f not in early]
        reg_ops(early)
        if ch.chance(1, 4, "long-lived"):
            # heavy tail: the instance has already numbered hundreds of temporaries
            winst = ch.draw(len(insts), "biginst")
            for _ in range(ch.randint(10, 400, "bigwarm")):
                ops.append({"op": "insn", "inst": winst, "name": "warm", "parts": [WARMUP_BIG], "via": "transform_insn"})
        for _ in range(ch.randint(0, 8, "warmup")):
            ops.append({"op": "stmt", "inst": ch.draw(len(insts), "winst"), "code": ch.choice(WARMUP, "warm")})
        reg_ops(late)
        byref = [f for f in funcs if f["kind"] in ("void_write", "ext_write_ret")]
        if byref and ch.chance(1, 5, "deep-failure"):
            # a statement rejected for its depth (RecursionError out of the tree walk, not out of a callback) *after* a
            # by-reference call of it was collected: nothing of it may run with a later statement
            f = ch.choice(byref, "deepf")
            callt = cref.show_expr(("call", f["name"], gen_call.CallGen.byref_args(f, ("reg", "RtV", ("s", 32))))) + ";"
            ops.append({"op": "stmt", "inst": ch.draw(len(insts), "dinst"), "code": "{ " + callt + " RxV = 1" + " + 1" * 560 + "; }"})
        if ch.chance(1, 4, "failure"):
            if ch.chance(1, 2, "natural"):
                ops.append({"op": "stmt", "inst": ch.draw(len(insts), "finst"), "code": ch.choice(gen_beh.failing_behaviours(), "fail")})
            else:
                ops.append({"op": "stmt", "inst": ch.draw(len(insts), "finst"), "code": "{ RdV = clz32(RsV) + RtV++; }",
                            "fault": {"at": ch.draw(10, "fat"), "when": ch.choice(["pre", "post"], "fw"), "exc": ch.choice(FAULT_EXC, "fe")}})
        for ci, c in enumerate(callers):
            ops.append({"op": "stmt", "inst": ch.draw(len(insts), "cinst"), "code": c["text"], "caller": ci})
            if ch.chance(1, 5, "interleave"):
                ops.append({"op": "stmt", "inst": ch.draw(len(insts), "winst"), "code": ch.choice(WARMUP, "warm2")})
        names = sorted({n for c in callers for n in c["uses"]} | {f["name"] for f in funcs} | set(BUNDLED_NAMES))
        if ch.chance(1, 5, "boundary"):
            if any(f["kind"] in ("void_write", "ext_write_ret") for f in funcs) and ch.chance(2, 3, "boundary-byref"):
                # where the order of two pending calls of one block is observable
                callers.append(g.gen_caller(force_form="two_byref_calls"))
            # the never-reset temporary counter right below a digit roll-over (9/10, 99/100, 999/1000) when the callers are compiled
            target = ch.choice([9, 99, 999], "btarget") - ch.draw(3, "bbelow")
            ops = [dict(gen_call.CallGen.registration(f), op="add_sub", inst=0) for f in funcs]
            ops += [{"op": "insn", "inst": 0, "name": "warm", "parts": [WARMUP_BIG], "via": "transform_insn"}] * (target // 8)
            ops += [{"op": "insn", "inst": 0, "name": "warm", "parts": [WARMUP_ONE], "via": "transform_insn"}] * (target % 8)
            first = len(callers) - 1 if callers[-1].get("form") == "two_byref_calls" and ch.chance(2, 3, "byref-first") else ch.draw(len(callers), "bfirst")
            for ci in [first] + [i for i in range(len(callers)) if i != first]:
                ops.append({"op": "stmt", "inst": 0, "code": callers[ci]["text"], "caller": ci})
            insts = [fmt0]
        if ch.chance(1, 4, "directed"):
            # directed history: place the instance's temporary counter exactly where a name written by a callee body
            # would coincide with a live temporary of a caller (the counter is never reset, so every value is
            # reached sooner or later on a long-lived instance; the simulator goes there on purpose)
            directed = self.directed_history(ch, fmt0, funcs, callers, names)
            if directed is not None:
                ops = directed
        ops.append({"op": "dump_subs", "inst": 0, "names": names})
        return {"fmt0": fmt0, "cfg": cfg, "ops": ops, "funcs": gen_call.to_json({f["name"]: f for f in funcs}),
                "callers": gen_call.to_json(callers), "state_seed": ch.draw(2**31, "state_seed")}

    def directed_history(self, ch, fmt0, funcs, callers, names):
        regs = [dict(gen_call.CallGen.registration(f), op="add_sub", inst=0) for f in funcs]
        probe = list(regs) + [{"op": "stmt", "inst": 0, "code": c["text"]} for c in callers] + [{"op": "dump_subs", "inst": 0, "names": names}]
        try:
            obs = self.sim.execute(fmt0, probe)
        except RuntimeError:
            return None
        defs = obs[-1].get("defs", {})
        written: dict[str, set] = {}
        for n, text in defs.items():
            written[n] = set(re.findall(r'SETL\("(\w+)"', text))
        cands = []
        for ci, c in enumerate(callers):
            o = obs[len(regs) + ci]
            if o["status"] != "ok":
                continue
            code = o["parts"][0]["code"]
            temps = re.findall(r'SETL\("(\w+?)(\d+)", (?:UN)?SIGNED\(\d+, VARL\("ret_val"\)\)\)', code)
            if not temps:
                continue
            stem = temps[0][0]
            first = int(temps[0][1])
            closure = set(re.findall(r"\bhex_(\w+)\(", code))
            todo = list(closure)
            while todo:
                n = todo.pop()
                for m in re.findall(r"\bhex_(\w+)\(", defs.get(n, "").split("{", 1)[-1]):
                    if m not in closure:
                        closure.add(m)
                        todo.append(m)
            for n in sorted(closure):
                for w in sorted(written.get(n, ())):
                    m = re.fullmatch(re.escape(stem) + r"(\d+)", w)
                    if m:
                        for j in range(len(temps)):
                            cands.append((ci, int(m.group(1)) - j))
        cands = [(ci, w) for ci, w in cands if 0 <= w <= 6000]
        if not cands:
            return None
        ci, warm = ch.choice(sorted(set(cands)), "directed.target")
        ops = list(regs)
        ops += [{"op": "insn", "inst": 0, "name": "warm", "parts": [WARMUP_BIG], "via": "transform_insn"}] * (warm // 8)
        ops += [{"op": "insn", "inst": 0, "name": "warm", "parts": [WARMUP_ONE], "via": "transform_insn"}] * (warm % 8)
        ops.append({"op": "stmt", "inst": 0, "code": callers[ci]["text"], "caller": ci, "directed": True})
        return ops

    def describe(self, wl):
        d = super().describe(wl)
        d["cfg"] = wl.get("cfg")
        d["funcs"] = {k: {"ret": v["ret"], "params": v["params"], "kind": v.get("kind")} for k, v in wl.get("funcs", {}).items()}
        return d

    # ------------------------------------------------------------------ states
    def states(self, seed, n):
        ch = Chooser(seed=seed)
        B = gen_call.BOUNDARY
        out = []
        for i in range(n):
            if i < n // 2:
                a, b = ch.choice(B, "a"), ch.choice(B, "b")
            else:
                a, b = ch.draw(2**64, "ra"), ch.draw(2**64, "rb")
            salt = ch.draw(2**31, "salt")

            def dflt(key, salt=salt):
                return int(hashlib.sha256(f"{salt}:{key}".encode()).hexdigest()[:16], 16)
            regs = {"Rss_op": a, "Rtt_op": b, "Rs_op": a & 0xFFFFFFFF, "Rt_op": b & 0xFFFFFFFF, "pc_op": (salt * 4) & 0xFFFFFFFF}
            out.append((a, b, il.State(regs=regs, default=dflt)))
        return out

    # ------------------------------------------------------------------ oracle
    def judge(self, workload, obs, out, log: EventLog):
        ops = workload["ops"]
        cfg = workload.get("cfg", "B")
        funcs = gen_call.from_json(workload.get("funcs", {}))
        callers = gen_call.from_json(workload.get("callers", []))
        V = out.violations
        dump = next((o for op, o in zip(ops, obs) if op["op"] == "dump_subs"), None)
        defs = (dump or {}).get("defs", {})
        subs, bad_defs = {}, {}
        for name, text in defs.items():
            try:
                subs[name] = il.parse_def(text)
            except il.Unsupported as e:
                bad_defs[name] = str(e)
        for name, text in sorted(defs.items()):
            head, _, body = text.partition("{")
            for var, decl in (("pkt", "HexPkt *pkt"), ("hi", "HexInsn *hi")):
                if re.search(r"\b%s\b" % var, body) and decl not in body and not re.search(r"\b%s\s*[,)]" % var, head):
                    V.append(Violation("C08", "prologue", "undeclared-" + var, cfg, {"routine": name, "def": text[:400]}))
        registered: list[str] = []
        all_funcs = gen_call.all_funcs(funcs)
        # a routine registered through the public API must get the body its source compiles to, whatever happened
        # before (e.g. an earlier registration of the same name that raised): compare with a fresh compiler
        from sim import norm as _norm
        good_regs = [op for op in ops if op["op"] == "add_sub" and not op.get("expect_fail")]
        for gi, op in enumerate(good_regs):
            name = op["name"]
            if name not in defs:
                continue
            rdef = self.ref_def(workload["fmt0"], good_regs[:gi + 1])
            if rdef is None:
                continue
            out.count("defs_compared")
            if _norm.normalise(defs[name]) != rdef:
                V.append(Violation("C08", "registration", "def-differs-from-fresh", cfg,
                                   {"routine": name, "source": op["body"][:300],
                                    "diff": _norm.first_difference(_norm.normalise(defs[name]), rdef)}))
        nstates = self.nstates[self.tier]
        states = None
        for step, (op, o) in enumerate(zip(ops, obs)):
            kind = op["op"]
            out.count("op_" + kind)
            if kind == "add_sub":
                if o["status"] == "ok":
                    registered.append(op["name"])
                    out.count("subs_registered")
                else:
                    out.count("sub_registration_failed_" + o.get("exc", "?"))
                log.add("add_sub", op["name"], o["status"])
                continue
            if op.get("fault") and o.get("fault_fired"):
                out.count("fault_fired_" + op["fault"]["exc"])
                log.add("faulted", step)
                continue
            if kind != "stmt":
                continue
            if o["status"] != "ok":
                out.count("natural_failure_" + o.get("exc", "?"))
            if "caller" not in op:
                log.add("warm", o["status"], o.get("hyb_after"))
                continue
            c = callers[op["caller"]] if op["caller"] < len(callers) else None
            if c is None:
                continue
            log.add("caller", op["caller"], o["status"], o.get("hyb_before"), stable_hash(o.get("parts", [{}])[0].get("code", ""))[:12])
            missing = [u for u in c["uses"] if u not in registered and u not in cref.BUNDLED and u not in BUNDLED_NAMES]
            if o["status"] != "ok":
                if not missing:
                    # registered through the public API, so the call must compile - unless a fresh compiler rejects it as well
                    r = self.ref(o["fmt"], "stmt", c["text"], tuple())
                    rr = self.ref_with_subs(o["fmt"], c, workload)
                    if rr is not None and rr["status"] == "ok":
                        V.append(Violation("C08", "registration", "call-rejected", f"{cfg}:{o.get('exc')}",
                                           {"caller": c["text"], "msg": o.get("msg"), "uses": c["uses"]}, step))
                    elif rr is not None and any(u in BUILTIN_LIKE for u in c["uses"]):
                        # a routine's name is only a name: the same routines registered under neutral names, called by the
                        # same text, are the reference
                        rn = self.ref_with_subs(o["fmt"], c, workload, rename={b: "vfneutral_" + b.lower() for b in BUILTIN_LIKE})
                        if rn is not None and rn["status"] == "ok":
                            V.append(Violation("C08", "registration", "call-rejected-by-name", cfg,
                                               {"caller": c["text"], "msg": o.get("msg"), "uses": c["uses"]}, step))
                out.count("caller_rejected")
                continue
            code = o["parts"][0]["code"]
            need = set(re.findall(r"\bhex_(\w+)\(", code))
            closure = set()
            todo = list(need)
            while todo:
                n = todo.pop()
                if n in closure:
                    continue
                closure.add(n)
                if n in defs:
                    todo += re.findall(r"\bhex_(\w+)\(", defs[n].split("{", 1)[1])
            if c.get("form") not in ("const_cond_calls", "fixed"):
                unrouted = sorted(u for u in set(c["uses"]) if u in funcs and u in registered and u not in need
                                  and re.search(r"\b%s\(" % re.escape(u), c["text"]))
                if unrouted:
                    # a routine registered through the public API is called in the source, but the emitted text does not call it
                    V.append(Violation("C08", "registration", "call-not-routed-to-routine", cfg,
                                       {"caller": c["text"], "routines": unrouted, "calls_emitted": sorted(need)[:8]}, step))
                    continue
            undefined = sorted(n for n in closure if n not in defs)
            if undefined:
                # the emitted text calls hex_<n>(...) but no registered routine is defined under that symbol
                V.append(Violation("C08", "registration", "call-to-undefined-symbol", cfg,
                                   {"caller": c["text"], "symbols": ["hex_" + n for n in undefined][:4],
                                    "registered": sorted(defs)[:20]}, step))
                continue
            if any(n not in subs for n in closure):
                out.count("caller_skipped_unparsed_def")
                continue
            if states is None:
                states = self.states(workload.get("state_seed", 0), nstates)
            out.compared += 1
            out.count("callers_interpreted")
            out.see("nontrivial", stable_hash(sorted(closure), c["text"], o.get("hyb_before"))[:16])
            out.count("calls_form_" + c.get("form", "?"))
            iso_done = conv_done = False
            for (a, b, st) in states:
                try:
                    flat = il.run_body(code, subs, st, False)
                    flat_err = None
                except il.Unsupported as e:
                    out.count("state_skipped_unsupported")
                    break
                except il.ILError as e:
                    flat, flat_err = None, str(e)
                try:
                    scoped = il.run_body(code, subs, st, True)
                    scoped_err = None
                except il.Unsupported:
                    out.count("state_skipped_unsupported")
                    break
                except il.ILError as e:
                    scoped, scoped_err = None, str(e)
                out.count("states_executed")
                if scoped_err is not None:
                    out.count("il_error_scoped")
                    if re.search(r"bitvector expected|bool expected|operand widths|ill-sorted argument", scoped_err) and not conv_done:
                        # the isolated run itself is ill-sorted (e.g. an argument conversion applied to a boolean)
                        V.append(Violation("C08", "convention", "ill-sorted-call-path", cfg,
                                           {"caller": c["text"], "error": scoped_err[:200], "uses": c["uses"]}, step))
                        conv_done = True
                    m_unset = re.search(r"read of unset local (\w+)$", scoped_err)
                    if m_unset and not conv_done and re.search(r'SETL\("%s", (?:UN)?SIGNED\(\d+, VARL\("ret_val"\)\)\)' % re.escape(m_unset.group(1)), code):
                        V.append(Violation("C08", "convention", "call-result-read-before-call", cfg,
                                           {"caller": c["text"], "error": scoped_err, "uses": c["uses"]}, step))
                        conv_done = True
                    if "ret_val" in scoped_err and not conv_done:
                        V.append(Violation("C08", "convention", "no-return-value", cfg,
                                           {"caller": c["text"], "error": scoped_err, "uses": c["uses"]}, step))
                        conv_done = True
                    continue
                out.count("calls_executed", scoped["calls"])
                # ---- oracle 1: isolation (flat vs scoped)
                if not iso_done:
                    diff = None
                    if flat_err is not None:
                        diff = ("error", flat_err)
                    else:
                        for k in sorted(set(scoped["written"]) | set(flat["written"])):
                            if scoped["written"].get(k) != flat["written"].get(k):
                                diff = ("reg", k)
                                break
                        if diff is None and scoped["mem"] != flat["mem"]:
                            diff = ("mem", "")
                        if diff is None:
                            for k in sorted(scoped["locals"]):
                                if k == "ret_val":
                                    continue
                                if flat["locals"].get(k) != scoped["locals"][k]:
                                    diff = ("local", k)
                                    break
                    if diff is not None:
                        culprit = self.find_clobber(flat, scoped, c["text"])
                        key = f"{cfg}:clobber:{culprit[0]}"
                        V.append(Violation("C08", "isolation", "flat-vs-scoped", key,
                                           {"caller": c["text"], "first_difference": list(diff), "clobbered": culprit[1], "written_by": culprit[2],
                                            "Rss": hex(a), "Rtt": hex(b), "hyb_before": o.get("hyb_before"),
                                            "flat": _short(flat), "scoped": _short(scoped)}, step))
                        iso_done = True
                # ---- oracle 2: calling convention (scoped vs C)
                if c.get("stmts") is not None and c.get("convention") and not conv_done:
                    try:
                        pc = st.reg("pc_op")
                        want = self.c_eval(all_funcs, c, a, b, (), pc)
                    except Exception as e:  # noqa: BLE001
                        out.count("cref_error")
                        conv_done = True
                        continue
                    out.count("convention_states")
                    bad = None
                    def observed(run, name):
                        if name.startswith("@"):
                            return run["written"].get({"RdV": c.get("byref_key", "Rd_op")}.get(name[1:], name[1:]))
                        return run["locals"].get(name)
                    expected_regs = {{"RdV": c.get("byref_key", "Rd_op")}.get(k_[1:], k_[1:]) for k_ in want if k_.startswith("@")}
                    extra = sorted(set(scoped["written"]) - expected_regs)
                    if extra:
                        V.append(Violation("C08", "convention", "unexpected-register-write", cfg + (":named-operand" if c.get("byref_key") else ""),
                                           {"caller": c["text"], "registers": extra, "expected": sorted(expected_regs)}, step))
                        conv_done = True
                        continue
                    for name, t in c["outs"]:
                        got = observed(scoped, name)
                        w = (t[1], cref.bits(want[name][1], t))
                        if got != w:
                            bad = (name, got, w)
                            break
                    if bad is not None:
                        expl = "unexplained"
                        for bugs in (("F5a",), ("F5b",), ("F5a", "F5b")):
                            try:
                                alt = self.c_eval(all_funcs, c, a, b, bugs, pc)
                            except Exception:  # noqa: BLE001
                                continue
                            if all(observed(scoped, n) == (t[1], cref.bits(alt[n][1], t)) for n, t in c["outs"]):
                                expl = "+".join(bugs)
                                break
                        V.append(Violation("C08", "convention", "scoped-vs-C", f"{cfg}:{expl}",
                                           {"caller": c["text"], "var": bad[0], "got": _hx(bad[1]), "want": _hx(bad[2]),
                                            "Rss": hex(a), "Rtt": hex(b),
                                            "funcs": {n: gen_call.CallGen.registration(all_funcs[n]) for n in c["uses"] if n in funcs}}, step))
                        conv_done = True
                elif c.get("form") == "fixed" and not conv_done:
                    r = self.fixed_reference(c["text"], a, b, st)
                    if r is not None:
                        out.count("fixed_reference_states")
                        pairs = r if isinstance(r, list) else [r]
                        bad_pair = next(((k_, w_) for k_, w_ in pairs if scoped["written"].get(k_) != w_), None)
                        key, want = bad_pair if bad_pair else pairs[0]
                        got = scoped["written"].get(key)
                        if bad_pair is not None:
                            V.append(Violation("C08", "convention", "bundled-vs-python", f"{cfg}:bundled",
                                               {"caller": c["text"], "reg": key, "got": _hx(got), "want": _hx(want), "Rs": hex(a & 0xFFFFFFFF), "Rt": hex(b & 0xFFFFFFFF)}, step))
                            conv_done = True
                if iso_done and conv_done:
                    break
        out.count("ops", len(ops))
        out.see("histories", stable_hash(workload)[:16])

    def ref_def(self, fmt, regs):
        key = ("c08def", fmt, stable_hash([{k: v for k, v in r.items() if k != "inst"} for r in regs])[:16])
        if key not in self.refs:
            from sim import norm as _norm
            ops = [dict(r, inst=0) for r in regs]
            try:
                o = self.sim.execute(fmt, ops)[-1]
                self.refs[key] = _norm.normalise(o["def"]) if o["status"] == "ok" else None
            except RuntimeError:
                self.refs[key] = None
        return self.refs[key]

    def ref_with_subs(self, fmt, caller, workload, rename=None):
        """The caller compiled on a fresh compiler right after registering the routines of this workload."""
        key = ("c08ref", fmt, caller["text"], stable_hash(workload.get("funcs", {}))[:12], bool(rename))
        if key not in self.refs:
            ops = [dict(op) for op in workload["ops"] if op["op"] == "add_sub"]
            text = caller["text"]

            def ren(t):
                for a, b in (rename or {}).items():
                    t = re.sub(r"\b%s\b" % re.escape(a), b, t)
                return t
            for op in ops:
                op["inst"] = 0
                if rename:
                    op["name"], op["body"] = ren(op["name"]), ren(op["body"])
            ops.append({"op": "stmt", "inst": 0, "code": ren(text)})
            try:
                self.refs[key] = self.sim.execute(fmt, ops)[-1]
            except RuntimeError:
                self.refs[key] = None
        return self.refs[key]

    @staticmethod
    def c_eval(all_funcs, c, a, b, bugs, pc=0):
        ev = cref.CRef(all_funcs, {"RssV": a, "RttV": b, "HEX_REG_ALIAS_PC": pc}, bugs)
        env = {}
        ev.run(c["stmts"], env)
        for r, tv in ev.reg_writes.items():
            env["@" + r] = tv
        return env

    @staticmethod
    def find_clobber(flat, scoped, source):
        """Variables that are live in one scope and were written by a (nested) callee in the flat run:
        (kinds, names, writers).  kind 'temp' = compiler generated name, 'named-local' = a name from some source text."""
        if flat is not None:
            cand = sorted(n for n in flat["callee_writes"] if n in scoped["locals"] and n != "ret_val")
        else:
            # the flat run did not even finish (e.g. a clobbered variable changed its width): names that the isolated run
            # keeps both at the top level and inside a callee scope
            callee_names = {n.split(":", 1)[1] for n in scoped["all_locals"] if ":" in n}
            cand = sorted(n for n in callee_names if n in scoped["locals"] and n != "ret_val")
        if not cand:
            # collisions between two call scopes: the same raw name owned by more than one scope in the scoped run
            owners: dict[str, set] = {}
            for n in scoped["all_locals"]:
                if ":" in n:
                    sc, raw = n.split(":", 1)
                    owners.setdefault(raw, set()).add(sc.split("#")[0])
            cand = sorted(raw for raw, scs in owners.items() if len(scs) > 1 and raw != "ret_val")
        if not cand:
            return ("unknown", "", "")
        writers = dict(flat["callee_writes"]) if flat is not None else {}
        for n in scoped["all_locals"]:
            if ":" in n:
                sc, raw = n.split(":", 1)
                writers.setdefault(raw, sc + ":")
        kinds = set()
        new_pairs = []
        for k in cand:
            if re.match(r"^h_tmp", k):
                kinds.add("temp")
                continue
            kinds.add("named-local")
            routine = writers.get(k, "").split("#")[0]
            # known finding F4 lists the collisions that exist on the unchanged tree: locals of *generated* routines (named by
            # this generator from the same pool as the caller's variables) and the unprefixed locals of bundled routines
            if routine in cref.BUNDLED or routine in BUNDLED_NAMES:
                if (routine, k) not in KNOWN_F4_BUNDLED:
                    new_pairs.append(f"{routine}.{k}")
        kind = "+".join(sorted(kinds))
        if new_pairs:
            kind += "[new:" + ",".join(sorted(set(new_pairs))) + "]"
        return (kind, ",".join(cand), ",".join(writers.get(k, "") for k in cand))

    def fixed_reference(self, text, a, b, st):
        rs, rt = a & 0xFFFFFFFF, b & 0xFFFFFFFF
        B = cref.BUNDLED
        m32 = 0xFFFFFFFF
        if text == FIXED_CALLERS[0]:
            return "Rd_op", (32, (B["clz32"]["native"](rs) + B["clz32"]["native"](rt)) & m32)
        if text == FIXED_CALLERS[1]:
            f, g = B["clo32"]["native"], B["clz32"]["native"]
            return "Rd_op", (32, (f(rs) + f(rt) + g(rs) + g(rt)) & m32)
        if text == FIXED_CALLERS[2]:
            return "Rd_op", (32, B["clz32"]["native"](B["clo32"]["native"](rs)) & m32)
        if text == FIXED_CALLERS[3]:
            return "Rdd_op", (64, (B["clz64"]["native"](a) + B["clo64"]["native"](b)) & (2**64 - 1))
        if text == FIXED_CALLERS[4]:
            return "Rd_op", (32, (B["revbit32"]["native"](rs) ^ B["clz32"]["native"](rt)) & m32)
        if text == FIXED_CALLERS[5]:
            return "Rd_op", (32, (B["fbrev"]["native"](rs) + B["revbit16"]["native"](rt & 0xFFFF)) & m32)
        if text == FIXED_CALLERS[6]:
            return "Rd_op", (32, (B["conv_round"]["native"](rs, 2) + B["conv_round"]["native"](rt, 0)) & m32)
        if text == FIXED_CALLERS[14]:
            if cref.wrap(rs, ("s", 32)) > cref.wrap(rt, ("s", 32)):
                return [("Rd_op", (32, 1)), ("Rx_op", None)]
            r7 = self.fixed_reference(FIXED_CALLERS[7], a, b, st)
            return [("Rd_op", None), r7]
        if text == FIXED_CALLERS[7]:
            # by-reference register operand: fcirc_add reads Rx (old value), writes Rx and returns the new pointer
            rx, m, cs = st.reg("Rx_op"), st.reg("Mu_op"), st.reg("cs0_op")
            off = cref.wrap(st.imm("s"), ("s", 32))
            k_const = (m >> 24) & 0xF
            length = m & 0x1FFFF
            new_ptr = (rx + off) & m32
            if k_const == 0 and length >= 4:
                start = cs & m32
                end = (start + length) & m32
            else:
                mask_ = ((1 << (k_const + 2)) - 1) & m32
                start = rx & (~mask_ & m32)
                end = start | length
            if new_ptr >= end:
                new_ptr = (new_ptr - length) & m32
            elif new_ptr < start:
                new_ptr = (new_ptr + length) & m32
            return "Rx_op", (32, new_ptr)
        if text in FIXED_CALLERS[11:14]:
            usr = st.reg("usr_op")

            def deposit(v, off, w, f):
                m = ((1 << w) - 1) << off
                return (v & ~m & m32) | ((f << off) & m)
            if text == FIXED_CALLERS[11]:
                off, w = il.REGFIELDS["HEX_REG_FIELD_USR_OVF"]
                return "usr_op", (32, deposit(usr, off, w, 1))
            off, w = il.REGFIELDS["HEX_REG_FIELD_USR_LPCFG"]
            if text == FIXED_CALLERS[12]:
                return "Rd_op", (32, (((usr >> off) & ((1 << w) - 1)) + B["clz32"]["native"](rs)) & m32)
            return "usr_op", (32, deposit(usr, off, w, B["clz32"]["native"](rs)))
        if text == FIXED_CALLERS[9]:
            return "Rd_op", (32, (B["clz32"]["native"](rt) + B["clz32"]["native"](rs)) & m32)
        if text == FIXED_CALLERS[10]:
            sgt = cref.wrap(rs, ("s", 32)) > cref.wrap(rt, ("s", 32))
            return "Rd_op", (32, B["clz32"]["native"](rs) if sgt else B["clo32"]["native"](rt))
        return None

    def finding_key(self, wl, v):
        return v.signature()

    def simplify(self, wl):
        yield from super().simplify(wl)
        # fewer callers per op list is handled by ddmin; try the other configuration label never (it changes the signature)

    # ------------------------------------------------------------------ evidence
    def nontrivial_rule(self):
        return ("one case = a history on 1..2 compiler instances: registration of 1..4 generated sub-routines (all 8 integer types "
                "for parameters/returns; bodies with locals, branches, postfix temporaries, nested calls) before/after 0..8 warm-up "
                "compilations that advance the never-reset temporary counter, optional failing compilation, then 1..6 callers "
                "(1..4 calls per expression, results live across later calls, call as argument, calls in ?: arms, bundled "
                "routines incl. the by-reference fcirc_add) compiled with compile_c_stmt; every compiled caller is *executed* "
                "with the callee bodies by the IL interpreter on %d/%d initial states, flat vs scoped namespace, and compared "
                "with a C reference. Distinct non-trivial = distinct (routines in the call closure, caller text, temporary "
                "counter at compile time) for which at least one call was executed in both modes."
                % (self.nstates["quick"], self.nstates["thorough"]))

    def assumptions(self):
        return super().assumptions() + [
            "sim/il.py models the RzIL op-builder macros and Hexagon plugin macros from knowledge of their API (Rizin is not in "
            "the sandbox); the isolation oracle compares two runs of the same model and is immune to operator-semantics errors",
            "sim/cref.py: C11 integer semantics over the generator's AST; bundled routines have hand-written python references",
            "configuration A never generates a conversion matching known findings F5a/F5b nor a caller variable named like a callee local"]

    def evidence_extra(self, agg):
        c = agg.counters
        return {"callers_interpreted": c.get("callers_interpreted", 0), "states_executed": c.get("states_executed", 0),
                "calls_executed": c.get("calls_executed", 0), "convention_states": c.get("convention_states", 0),
                "fault_kinds_fired": {k[len("fault_fired_"):]: v for k, v in sorted(c.items()) if k.startswith("fault_fired_")},
                "natural_failures": {k[len("natural_failure_"):]: v for k, v in sorted(c.items()) if k.startswith("natural_failure_")},
                "components": {"real": ["rzilcompiler (all of it)", "lark"], "stub": [],
                               "oracle models": ["sim/il.py (RzIL interpreter)", "sim/cref.py (C reference)"]},
                "logical_steps": c.get("ops", 0)}


def _hx(v):
    if isinstance(v, tuple):
        return f"{v[0]}'h{v[1]:x}"
    return repr(v)


def _short(r):
    if r is None:
        return None
    return {"written": {k: _hx(v) for k, v in sorted(r["written"].items())},
            "locals": {k: _hx(v) for k, v in sorted(r["locals"].items())[:12]}}


ENGINE = EngineC08
