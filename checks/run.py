#!/venv/bin/python
"""CLI:  run.py <property id> --tier quick|thorough | --replay <file> | --digests a..b"""
import importlib
import os
import sys

HERE = os.path.dirname(os.path.abspath(__file__))
sys.path.insert(0, HERE)
sys.path.insert(0, os.path.dirname(HERE))

MODULES = {"C18": "c18", "C14": "c14", "C13": "c13", "C08": "c08", "C17": "c17"}


def _main():
    if len(sys.argv) < 2 or sys.argv[1] not in MODULES:
        print(f"usage: run.py {{{'|'.join(sorted(MODULES))}}} [--tier quick|thorough] [--replay file]")
        return 2
    import common
    common.ensure_env()
    try:
        mod = importlib.import_module(MODULES[sys.argv[1]])
    except Exception:
        import traceback
        traceback.print_exc()
        print(f"HARNESS-ERROR property={sys.argv[1]} cannot import engine")
        return 2
    return common.main(mod.ENGINE, os.path.abspath(__file__))


if __name__ == "__main__":
    sys.exit(_main())
