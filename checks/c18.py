"""C18 - pooled parsing equals sequential parsing and isolates failures (engine P, SimPool)."""
from __future__ import annotations

import io
import os
import sys

from common import EngineBase, Outcome
from sim import corpus, faults, simpool, trees
from sim.core import Chooser, EventLog, Violation, stable_hash
from sim.faults import FAULT_KINDS, FaultyLark, ParseSeam, text_key

# valid in unusual ways: empty / blank parts (fbody: stmt* accepts them), braces inside string literals
SIZES = [b + d for b in (256, 512, 1024, 2048, 4096) for d in (-1, 0, 1)]
HUGE = ["{ fatal(\"%s\"); }" % (c * 70000) for c in "abc"]
EDGE_OK = ["", "   ", "{ RdV = IS_INF(RsV); }", "{ RdV = PuV ? P0:1; }", "{ RdV = RsV ? R1:0; }", "{ RdV = b---c; }", "{ RdV = (cnt_t) - RsV; }", "{ fatal(\"{\"); }", "{ fatal(\"} {\"); }", "{ fatal(\"a  b\"); }", "{ fatal(\"a\tb   c\"); }"]
BROKEN = [
    # double faults: an early lexical error *and* an unbalanced brace
    "{ RdV = RsV $ 1; ",
    "{ if (a) { RdV = ; }",
    "{ RdV = 09abc; { ",
    "{ } }",
    "{",
    "{ RdV = ; }",
    "{ RdV = RsV }",
    "{ RdV = RsV; } }",
    "{ RdV = (RsV; }",
    "{ RdV = RsV $ 1; }",
    "{ RdV = RsV +* ; }",
    # a '%' right next to the error position
    "{ RdV = RsV % $ 3; }", "{ RdV = (RsV % 4; }", "{ RdV = RsV %% 4; }", "{ RdV = fatal(\"%s %d\") $; }",
    "}",
    "{ if (PuV { RdV = RsV; } }",
    "{ RdV = 09abc; }",
    "{ RdV = RsV; ",
    "{ @ }",
]


class EngineP(EngineBase):
    prop = "C18"
    tiers = {"quick": dict(budget_s=75, max_runs=10**9, workers=16),
             "thorough": dict(budget_s=1500, max_runs=10**9, workers=16)}
    per_run_timeout = 300.0

    # ------------------------------------------------------------------ set-up
    def parent_init(self):
        self._load()
        # make sure the short corpus texts are in the on-disk cache before forking workers
        self.tc.get(self.short_texts, workers=16, quiet=False)

    def worker_init(self, wid):
        if not hasattr(self, "tc"):
            self._load()
        import tqdm as _tqdm
        _tqdm.tqdm.monitor_interval = 0          # display-only helper thread; never fork with threads
        import rzilcompiler.Parser as P
        self.P = P
        # what a spawn/forkserver worker would see: the modules as they are right after import
        simpool.SimPool.import_snapshot = {n: dict(vars(m)) for n, m in list(sys.modules.items())
                                           if n.startswith("rzilcompiler") and m is not None}
        self.ref: dict[str, tuple] = {}
        self._devnull = open(os.devnull, "w")

    def _load(self):
        self.tc = corpus.TreeCache()
        self.grammar = self.tc.g
        beh = corpus.load_behaviours()
        self.corpus_short = sorted((n, p) for n, p in beh.items() if sum(len(x) for x in p) <= 110)
        self.compounds = sorted((n, p) for n, p in beh.items() if len(p) == 2 and sum(len(x) for x in p) <= 260)[:24]
        # a fixed, seed-independent pool keeps the per-worker parse cost bounded
        step = max(1, len(self.corpus_short) // 70)
        self.corpus_short = self.corpus_short[::step][:70]
        self.short_texts = sorted({x for _, p in self.corpus_short + self.compounds for x in p} | set(corpus.MICRO) | set(BROKEN) | set(EDGE_OK))
        # anything whose trees are already in the on-disk cache costs nothing in memo-parse runs
        try:
            from sim import attrmodel
            noped = attrmodel.noped_list()
        except Exception:  # noqa: BLE001
            noped = []
        self.special_names = sorted(set(noped) | {"dep_" + n for n in noped} | {n + "_undocumented" for n in noped} | {"X2_dummy", "SA2_tfrsi"})
        self.corpus_cached = sorted((n, p) for n, p in beh.items() if all(x in self.tc.data for x in p))
        self.cached_ok_texts = sorted({x for _, p in self.corpus_cached for x in p if self.tc.data[x][0] == "ok"})

    # ------------------------------------------------------------------ reference (sequential, harness-owned)
    VOL_RE = None

    def synth(self, text):
        """`{ RdV = 0x<hex>; }`: the tree of the template with the literal replaced (2000 real parses would cost minutes)."""
        import copy
        import re as _re
        from lark import Token, Tree
        m = _re.fullmatch(r"\{ RdV = (0x[0-9a-f]+); \}", text)
        if not m:
            return None
        if not hasattr(self, "_template"):
            r = corpus._parse_one((self.grammar, "{ RdV = 0x5000; }"))[1]
            self._template = r[1]

        def rebuild(t):
            if isinstance(t, Tree):
                return Tree(t.data, [rebuild(c) for c in t.children])
            if isinstance(t, Token) and t.type == "HEX_NUMBER":
                return Token("HEX_NUMBER", m.group(1))
            return t
        return rebuild(self._template)

    def ref_parse(self, text):
        hit = self.ref.get(text)
        if hit is None and text.startswith("{ RdV = 0x") and len(text) < 30 and text not in self.tc.data:
            t = self.synth(text)
            if t is not None:
                hit = ("ok", t, trees.canon(t))
                self.ref[text] = hit
        if hit is None and text not in self.tc.data and text.endswith("    ") and text.strip():
            # blank padding after the closing brace (sized tasks): WS is %ignore'd, the tree is the base text's tree
            base = self.ref_parse(text.rstrip(" "))
            if base[0] == "ok":
                hit = base
                self.ref[text] = hit
        if hit is None:
            if text in self.tc.data:
                r = self.tc.data[text]
            else:
                r = corpus._parse_one((self.grammar, text))[1]
            hit = (r[0], r[1], trees.canon(r[1]) if r[0] == "ok" else None)
            self.ref[text] = hit
        return hit

    def reference(self, workload, tasks=None):
        plan = workload["plan"]
        exp = {}
        for t in (workload["tasks"] if tasks is None else tasks):
            cans, exc = [], None
            for part in t["parts"]:
                k = plan.get(text_key(part))
                if k is not None:
                    exc = k
                    break
                r = self.ref_parse(part)
                if r[0] != "ok":
                    exc = r[1]
                    break
                cans.append(r[2])
            exp[t["name"]] = ("exc", exc) if exc is not None else ("ok", cans)
        return exp

    # ------------------------------------------------------------------ workload
    def generate(self, ch: Chooser, index):
        if ch.chance(1, 40, "volume-run"):
            return self.volume_workload(ch, index)
        mode = ch.weighted([("real", 2), ("objmemo", 3), ("memoparse", 5)], "mode")
        if self.tier == "thorough":
            mode = ch.weighted([("real", 4), ("objmemo", 3), ("memoparse", 3)], "mode2")
        nmax = {"real": 6, "objmemo": 16, "memoparse": 48 if ch.chance(4, 5, "big") else 96}[mode]
        n = ch.randint(0 if ch.chance(1, 30, "empty") else 1, nmax, "ntasks")
        p_broken = ch.choice([0, 1, 2, 4], "p_broken")
        p_fault = ch.choice([0, 1, 2, 4], "p_fault")
        p_compound = ch.choice([0, 1, 3], "p_compound")
        p_huge = ch.choice([0, 0, 0, 3], "p_huge")
        tasks, plan, names = [], {}, set()
        uid = 0
        broken_prefix = ch.randint(10, 20, "broken-prefix") if ch.chance(1, 15, "all-broken-start") else 0
        if broken_prefix:
            n = max(n, broken_prefix + ch.randint(0, 6, "after-prefix"))
        for i in range(n):
            kind = ch.weighted([("micro", 6), ("corpus", 4), ("compound", p_compound), ("broken", p_broken),
                                ("cached", 5 if mode == "memoparse" and self.corpus_cached else 0),
                                ("fault", p_fault), ("zero", 1 if ch.chance(1, 8, "z") else 0), ("multi", 1),
                                ("sized", 1), ("huge", p_huge if mode == "memoparse" else 0)], "kind")
            if i < broken_prefix:
                kind = "broken" if ch.chance(2, 3, "prefix-kind") else "fault"
            if kind == "micro":
                name, parts = f"m{i}", [ch.choice(corpus.MICRO + EDGE_OK, "micro")]
            elif kind == "corpus":
                name, parts = ch.choice(self.corpus_short, "corpus")
                parts = list(parts)
            elif kind == "cached":
                name, parts = ch.choice(self.corpus_cached, "cached")
                parts = list(parts)
            elif kind == "compound":
                name, parts = ch.choice(self.compounds, "compound") if self.compounds else ("c", ["{}", "{}"])
                parts = list(parts)
            elif kind == "zero":
                name, parts = f"z{i}", []
            elif kind == "sized":
                # total length of the parts exactly at / next to a power of two (anything the code derives from the size
                # of a behaviour - task classes, chunking, buffers - must not change the result)
                name = f"s{i}"
                total = ch.choice(SIZES, "size")
                k = ch.weighted([(1, 3), (2, 2), (3, 1)], "sized-parts")
                bases = [ch.choice(corpus.MICRO, "sized-base") for _ in range(k)]
                room = total - sum(len(b) for b in bases)
                cuts = sorted(ch.draw(room + 1, "sized-cut") for _ in range(k - 1)) + [room]
                pads = [c - p for c, p in zip(cuts, [0] + cuts[:-1])]
                parts = [b + " " * n for b, n in zip(bases, pads)]
            elif kind == "huge":
                # results far beyond the capacity of a pipe (70 kB string literal: parsed once per batch worker, then memoised)
                name, parts = f"h{i}", [HUGE[ch.draw(len(HUGE), "huge")]]
            elif kind == "multi":
                name = f"x{i}"
                if mode == "memoparse" and self.cached_ok_texts and ch.chance(1, 2, "longmulti"):
                    # parts of any length (trees come from the cache): several *long* parts under one name
                    parts = [ch.choice(self.cached_ok_texts, "multi-long") for _ in range(ch.randint(2, 4, "nparts"))]
                else:
                    parts = [ch.choice(corpus.MICRO + EDGE_OK, "multi") for _ in range(ch.randint(2, 4, "nparts"))]
            elif kind == "broken":
                name = f"b{i}"
                good = [ch.choice(corpus.MICRO, "bgood") for _ in range(ch.randint(0, 2, "bpre"))]
                post = [ch.choice(corpus.MICRO, "bpost") for _ in range(ch.randint(0, 1, "bpostn"))]
                parts = good + [ch.choice(BROKEN, "broken")] + post
                if ch.chance(1, 3, "two-broken"):
                    # several broken parts (of different error classes): the *first* failure is the entry's error
                    parts = parts + [ch.choice(BROKEN, "broken2")] + ([ch.choice(corpus.MICRO, "bpost2")] if ch.chance(1, 2, "b2") else [])
            else:  # fault
                name = f"f{i}"
                uid += 1
                text = "{ RdV = 0x%x; }%s" % (0x5000 + index % 4096 * 64 + uid, " " * ch.randint(0, 2, "pad"))
                good = [ch.choice(corpus.MICRO, "fgood") for _ in range(ch.randint(0, 2, "fpre"))]
                post = [ch.choice(corpus.MICRO, "fpost") for _ in range(ch.randint(0, 1, "fpostn"))]
                parts = good + [text] + post
                plan[text_key(text)] = ch.choice(FAULT_KINDS, "faultkind")
            # name games: same text under several names, case-only differences, prefixes
            if self.special_names and ch.chance(1, 12, "specialname"):
                # names that other resource files of the project mention (no-op list and its documented aliases)
                name = ch.choice(self.special_names, "special")
            r = ch.draw(12, "namegame")
            if names and r in (10, 11):
                # a name and its documented alias spelling side by side in one call
                base = sorted(names)[ch.draw(len(names), "ng")]
                name = ch.choice(["dep_" + base, base + "_undocumented", "IMPORTED_" + base, "undocumented_" + base], "alias-shape")
            if names and r == 0:
                name = sorted(names)[ch.draw(len(names), "ng")].swapcase()
            elif names and r == 1:
                name = sorted(names)[ch.draw(len(names), "ng")] + "_x"
            elif names and r == 2:
                name = sorted(names)[ch.draw(len(names), "ng")][:-1] or "q"
            while name in names:
                name += "_"
            names.add(name)
            tasks.append({"name": name, "parts": parts})
            if ch.chance(1, 8, "tuple-parts"):
                tasks[-1]["tuple"] = True
        # a run is a short *history* of Parser.parse calls in one process: later calls reuse names of earlier
        # ones with other behaviours (module/class-level state of the parser must not leak between calls)
        ncalls = ch.weighted([(1, 5), (2, 3), (3, 1)], "ncalls")
        if ncalls > 1 and tasks:
            cuts = sorted(ch.draw(len(tasks) + 1, "cut") for _ in range(ncalls - 1))
            call = 0
            for i, t in enumerate(tasks):
                while call < len(cuts) and i >= cuts[call]:
                    call += 1
                t["call"] = call
            first_names = [t["name"] for t in tasks if t["call"] == 0]
            for t in tasks:
                if t["call"] > 0 and first_names and ch.chance(1, 3, "reuse-name"):
                    cand = ch.choice(first_names, "reused")
                    if all(o["name"] != cand for o in tasks if o is not t and o["call"] == t["call"]):
                        t["name"] = cand
        # a task whose single part is the concatenation of another task's parts (the same characters, split differently)
        for t in list(tasks):
            if len(t["parts"]) >= 2 and ch.chance(1, 4, "concat-twin") and all(text_key(p) not in plan for p in t["parts"]):
                cat = "".join(t["parts"])
                self.ref_parse(cat)          # (memoised here, so the forked run inherits the reference)
                nm = t["name"] + "_cat"
                if nm not in {x["name"] for x in tasks if x.get("call", 0) == t.get("call", 0)}:
                    tasks.append({"name": nm, "parts": [cat], "call": t.get("call", 0)})
        wl = {"mode": mode, "tasks": tasks, "plan": plan}
        wl["start"] = "spawn" if ch.chance(3, 10, "start-method") else "fork"
        # the clock of the workers and the threads of the caller belong to the simulated environment
        wl["caller_thread"] = ch.chance(1, 4, "caller-thread")
        wl["stale_timers_fire"] = ch.chance(1, 2, "stale-timers")
        wl["fork_with_held_locks"] = wl["start"] == "fork" and ch.chance(1, 4, "held-locks")
        if ncalls > 1 and ch.chance(1, 3, "overlap"):
            wl["overlap"] = True
            wl["overlap_at"] = ch.randint(0, 3, "overlap-at")
        if ch.chance(1, 20, "pool-create-fails"):
            wl["pool_fail"] = ch.choice(["OSError", "AssertionError"], "pool-fail-kind")
        return wl

    def volume_workload(self, ch: Chooser, index):
        """A long-lived worker: one simulated CPU, more than 2048 distinct behaviours, then early ones again under new
        names (anything a worker keeps between tasks - memo tables, counters, ring buffers - crosses its thresholds)."""
        n = 2060 + ch.randint(0, 40, "volume-n")
        base = 0x100000 + (index % 997) * 4096
        tasks = [{"name": f"v{k}", "parts": ["{ RdV = 0x%x; }" % (base + k)], "call": 0} for k in range(n)]
        for j in range(24):
            k = ch.draw(64, "revisit")
            tasks.append({"name": f"again{j}", "parts": ["{ RdV = 0x%x; }" % (base + k)], "call": 0})
        return {"mode": "memoparse", "tasks": tasks, "plan": {}, "start": "fork", "cpus": 1, "volume": True}

    def describe(self, wl):
        return {"mode": wl["mode"], "plan": wl["plan"],
                "start": wl.get("start"), "pool_fail": wl.get("pool_fail"), "stale_timers_fire": wl.get("stale_timers_fire"), "caller_thread": wl.get("caller_thread"),
                "fork_with_held_locks": wl.get("fork_with_held_locks"), "overlap": wl.get("overlap"), "overlap_at": wl.get("overlap_at"), "cpus": wl.get("cpus"), "n_tasks": len(wl["tasks"]),
                "tasks": [{"name": t["name"], "call": t.get("call", 0), "parts": [p[:80] + (f"...[{len(p)} chars]" if len(p) > 80 else "") for p in t["parts"]]}
                          for t in wl["tasks"][:40]]}

    # ------------------------------------------------------------------ execution
    def _install(self):
        import multiprocessing
        import multiprocessing.pool
        import lark
        P = self.P
        saved = []
        simpool.SimPool.snapshot_keep = {}
        real_pools = {id(multiprocessing.Pool), id(multiprocessing.pool.Pool)}
        for k, v in list(vars(P).items()):
            if id(v) in real_pools or getattr(v, "__func__", None) is getattr(multiprocessing.Pool, "__func__", object()):
                saved.append((P, k, v))
                setattr(P, k, simpool.SimPool)
            elif v is faults.RealLark:
                saved.append((P, k, v))
                setattr(P, k, FaultyLark)
        saved.append((multiprocessing, "Pool", multiprocessing.Pool))
        multiprocessing.Pool = simpool.SimPool
        saved.append((multiprocessing.pool, "Pool", multiprocessing.pool.Pool))
        multiprocessing.pool.Pool = simpool.SimPool
        saved.append((lark, "Lark", lark.Lark))
        lark.Lark = FaultyLark
        # timers: the simulator owns the clock of the pool workers
        import threading
        real_timer = threading.Timer
        for k, v in list(vars(P).items()):
            if v is real_timer:
                saved.append((P, k, v))
                setattr(P, k, simpool.SimTimer)
        saved.append((threading, "Timer", real_timer))
        threading.Timer = simpool.SimTimer
        # concurrent.futures route: same scheduler
        import concurrent.futures as cf
        import concurrent.futures.process as cfp
        for mod, attr, repl in ((cf, "ProcessPoolExecutor", simpool.SimExecutor), (cfp, "ProcessPoolExecutor", simpool.SimExecutor),
                                (cf, "as_completed", simpool.sim_as_completed), (cf, "wait", simpool.sim_wait)):
            saved.append((mod, attr, getattr(mod, attr)))
            setattr(mod, attr, repl)
        for k, v in list(vars(P).items()):
            if v is saved[-4][2]:
                saved.append((P, k, v))
                setattr(P, k, simpool.SimExecutor)
            elif v is simpool._REAL_AS_COMPLETED:
                saved.append((P, k, v))
                setattr(P, k, simpool.sim_as_completed)
            elif v is simpool._REAL_WAIT:
                saved.append((P, k, v))
                setattr(P, k, simpool.sim_wait)
        for mod, k, _ in saved:
            simpool.SimPool.snapshot_keep.setdefault(getattr(mod, "__name__", ""), set()).add(k)
        return saved

    @staticmethod
    def _restore(saved):
        for mod, k, v in reversed(saved):
            setattr(mod, k, v)

    def execute(self, workload, tape, seed) -> Outcome:
        """One run = one forked child of the batch worker: whatever the code under test keeps in module or
        class attributes cannot leak from one run into the next, so every run replays in a fresh interpreter."""
        import pickle
        r, w = os.pipe()
        pid = os.fork()
        if pid == 0:
            code = 0
            try:
                os.close(r)
                out = self._execute_inproc(workload, tape, seed)
                data = pickle.dumps({"violations": [v.to_json() for v in out.violations], "digest": out.digest, "tape": out.tape,
                                     "counters": out.counters, "distinct": out.distinct, "compared": out.compared})
                off = 0
                while off < len(data):
                    off += os.write(w, data[off:off + 65536])
            except BaseException:  # noqa: BLE001
                import traceback
                traceback.print_exc(file=sys.__stderr__)
                code = 3
            finally:
                os._exit(code)
        os.close(w)
        buf = bytearray()
        while True:
            c = os.read(r, 1 << 20)
            if not c:
                break
            buf += c
        os.close(r)
        _, status = os.waitpid(pid, 0)
        if status != 0 or not buf:
            from sim.core import HarnessError
            raise HarnessError(f"C18 run child failed (wait status {status})")
        d = pickle.loads(bytes(buf))
        out = Outcome()
        out.violations = [Violation.from_json(v) for v in d["violations"]]
        out.digest, out.tape, out.counters, out.distinct, out.compared = d["digest"], d["tape"], d["counters"], d["distinct"], d["compared"]
        return out

    def _execute_inproc(self, workload, tape, seed) -> Outcome:
        out = Outcome()
        ch = Chooser(tape=tape) if tape is not None else Chooser(seed=seed)
        log = EventLog()
        stats: dict = {}
        all_tasks = workload["tasks"]
        plan = workload["plan"]
        mode = workload["mode"]
        ParseSeam.reset(mode, plan)
        ParseSeam.parse_memo.clear()
        if mode == "memoparse":
            okey = tuple(sorted((k, repr(v)) for k, v in dict(start="fbody", parser="earley").items()))
            gk = faults.hashlib.sha256(self.grammar.encode()).hexdigest()[:20]
            for t in all_tasks:
                for part in t["parts"]:
                    if text_key(part) in plan:
                        continue
                    r = self.ref_parse(part)
                    if r[0] == "ok":
                        ParseSeam.parse_memo[(gk, okey, part)] = ("ok", r[1])
        if mode == "real":
            ParseSeam.lark_objects.clear()
        else:
            # the declared stub: one Lark object per (grammar, options), built before the pool forks
            FaultyLark(self.grammar, start="fbody", parser="earley")
            ParseSeam.constructed = 0
        V = out.violations
        # the machine's CPU count is part of the simulated configuration: whatever the code derives from it
        # (pool size, chunk sizes) must not change the result
        import multiprocessing
        cpus = 1 + ch.draw(16, "cpu_count")
        if workload.get("cpus"):
            cpus = int(workload["cpus"])
        simpool.SimPool.cpus = cpus
        simpool.SimPool.start_method = workload.get("start", "fork")
        simpool.SimTimer.fire_stale = bool(workload.get("stale_timers_fire"))
        simpool.SimTimer.armed = []
        simpool.SimPool.fork_with_held_locks = bool(workload.get("fork_with_held_locks"))
        out.count("start_" + simpool.SimPool.start_method)
        injected_create = None
        if workload.get("pool_fail"):
            import errno
            injected_create = (OSError(errno.EAGAIN, "injected: Resource temporarily unavailable") if workload["pool_fail"] == "OSError"
                               else AssertionError("injected: daemonic processes are not allowed to have children"))
            simpool.SimPool.fail_create = injected_create
        os.cpu_count = lambda: cpus
        multiprocessing.cpu_count = lambda: cpus
        if hasattr(os, "sched_getaffinity"):
            os.sched_getaffinity = lambda pid=0: set(range(cpus))
        if hasattr(os, "process_cpu_count"):
            os.process_cpu_count = lambda: cpus
        log.add("cpu_count", cpus)
        calls = sorted({t.get("call", 0) for t in all_tasks}) or [0]
        n_fail_total = 0
        results: dict = {}

        def run_call(ci):
            tasks_ = [t for t in all_tasks if t.get("call", 0) == calls[ci]]
            # (parts as a list, or as the tuple that split_compounds() produces)
            insn_behavior = {t["name"]: (tuple(t["parts"]) if t.get("tuple") else list(t["parts"])) for t in tasks_}
            result_, raised_ = None, None
            try:
                result_ = self.P.Parser.parse(insn_behavior)
            except BaseException as e:  # SimHang / SimStepCap are BaseExceptions on purpose
                raised_ = e
            results[ci] = (result_, raised_)
            log.add("returned", ci, type(raised_).__name__ if raised_ is not None else "ok")

        # overlap: the second call is made by "another caller thread" while the first is blocked inside its pool loop
        overlap = bool(workload.get("overlap")) and len(calls) >= 2
        groups = ([[0, 1]] + [[i] for i in range(2, len(calls))]) if overlap else [[i] for i in range(len(calls))]
        for group in groups:
            simpool.SimPool.sim = (ch, log, stats)
            saved = self._install()
            old_err = sys.stderr
            sys.stderr = self._devnull
            try:
                if len(group) == 2:
                    simpool.SimPool.reentry = {"at": int(workload.get("overlap_at", 0)), "count": 0, "fn": lambda: run_call(group[1])}
                if workload.get("caller_thread"):
                    # the API is called from a thread other than the main thread (the whole simulation of this call,
                    # forks included, then runs on that thread)
                    import threading
                    th = threading.Thread(target=run_call, args=(group[0],), name="caller-thread")
                    th.start()
                    th.join()
                else:
                    run_call(group[0])
                simpool.SimPool.reentry = None
                if len(group) == 2 and group[1] not in results:
                    run_call(group[1])          # the first call never blocked that often: plain succession
                    out.count("overlap_not_reached")
            finally:
                simpool.SimPool.reentry = None
                sys.stderr = old_err
                self._restore(saved)
                simpool.cleanup_live_pools()
                simpool.SimPool.sim = None
            if any(results[ci][1] is not None for ci in group):
                break
        out.count("overlapping_calls", stats.get("reentries", 0))
        out.count("runs_called_from_second_thread", 1 if workload.get("caller_thread") else 0)
        out.count("runs_with_stale_timer_policy", 1 if workload.get("stale_timers_fire") else 0)
        out.count("runs_forked_with_held_locks_policy", 1 if workload.get("fork_with_held_locks") else 0)
        out.count("workers_stuck", stats.get("worker_stuck", 0))
        out.count("tasks_with_tuple_parts", sum(1 for t in all_tasks if t.get("tuple")))

        for ci, call in enumerate(calls):
            if ci not in results:
                break
            tasks = [t for t in all_tasks if t.get("call", 0) == call]
            exp = self.reference(workload, tasks)
            result, raised = results[ci]

            def viol(cls, sigkey="", **detail):
                detail["call"] = ci
                V.append(Violation("C18", "seq-ref", cls, sigkey, detail))

            if raised is not None and raised is injected_create:
                # the pool could not be created: the statement promises nothing then; propagating the error is fine,
                # answering with wrong entries is not (judged below if the call returns)
                out.count("pool_create_failure_propagated")
                log.add("pool-create-failure-propagated", ci)
                continue
            if raised is not None:
                if isinstance(raised, (simpool.SimHang,)):
                    viol("hang", "", message=str(raised), events=log.events[-12:])
                elif isinstance(raised, simpool.SimStepCap):
                    viol("no-progress", "", message=str(raised))
                else:
                    viol("raised", type(raised).__name__, message=str(raised)[:300], events=log.events[-8:])
                break
            if not isinstance(result, dict):
                viol("not-a-mapping", type(result).__name__)
                break
            want_names = [t["name"] for t in tasks]
            if set(result.keys()) != set(want_names):
                viol("keys", "", missing=sorted(set(want_names) - set(result))[:5], extra=sorted(map(str, set(result) - set(want_names)))[:5])
            for t in tasks:
                name = t["name"]
                if name not in result:
                    continue
                e = result[name]
                out.compared += 1
                kind, val = exp[name]
                try:
                    ename, easts, ebeh, eexc = e.name, e.asts, e.behaviors, e.exception
                except AttributeError as ae:
                    viol("entry-shape", "", name=name, error=str(ae))
                    continue
                if ename != name:
                    viol("entry-name", "", key=name, entry_name=ename)
                if list(ebeh) != list(t["parts"]):
                    viol("behaviors", "", name=name)
                if kind == "ok":
                    if eexc is not None:
                        viol("spurious-exception", str(getattr(eexc, "name", type(eexc).__name__)), name=name)
                        continue
                    if len(easts) != len(val):
                        viol("tree-count", "", name=name, got=len(easts), want=len(val))
                        continue
                    for j, (tr, cw) in enumerate(zip(easts, val)):
                        if trees.canon(tr) != cw:
                            viol("tree-differs", "", name=name, part=j, text=t["parts"][j][:200],
                                 got=trees.sexpr(tr)[:400])
                            break
                else:
                    if eexc is None:
                        viol("missing-exception", val, name=name, trees=len(easts))
                        continue
                    got = getattr(eexc, "name", None)
                    if got != val:
                        viol("wrong-exception-name", f"{val}", name=name, got=str(got))
                    if len(easts) != 0:
                        viol("trees-on-failure", "", name=name, trees=len(easts))
            n_fail_total += sum(1 for k in exp.values() if k[0] == "exc")
            # a planned fault fires iff sequential parsing reaches its part (the worker-side counter is out of reach)
            for t in tasks:
                for p in t["parts"]:
                    k = plan.get(text_key(p))
                    if k:
                        out.count("fault_planned_" + k)
                        out.count("fault_fired_" + k)
                        break
                    r = self.ref_parse(p)
                    if r[0] != "ok":
                        out.count("natural_parse_error_" + r[1])
                        break

        simpool.SimPool.fail_create = None
        out.count("pool_create_failed", stats.get("pool_create_failed", 0))
        out.count("volume_runs", 1 if workload.get("volume") else 0)
        # ---------------- probes / statistics
        sums = stats.get("pool_summaries", [])
        ooo = any(s["out_of_order"] for s in sums)
        out.count("tasks", len(all_tasks))
        out.count("parse_calls", len(calls))
        out.count("runs_with_several_calls", 1 if len(calls) > 1 else 0)
        names = [t["name"] for t in all_tasks]
        out.count("names_reused_across_calls", len(names) - len(set(names)))
        out.count("mode_" + mode)
        out.count("seam_pool_hits", stats.get("seam_hits", 0))
        out.count("seam_hit_runs", 1 if stats.get("seam_hits", 0) else 0)
        out.count("sched_steps", sum(s["steps"] for s in sums))
        out.count("out_of_order_runs", 1 if ooo else 0)
        out.count("failing_entries", n_fail_total)
        out.count("handler_died", stats.get("handler_died", 0))
        out.count("worker_died", stats.get("worker_died", 0))
        out.count("terminated_with_outstanding", stats.get("terminated_with_outstanding", 0))
        if sums:
            out.count("shared_worker_runs", 1 if any(s["workers_used"] < len(all_tasks) and len(all_tasks) > 1 for s in sums) else 0)
            out.count("idle_worker_runs", 1 if any(s["workers_used"] < s["processes"] for s in sums) else 0)
            out.count("poolsize_%02d" % sums[0]["processes"])
        delivery = [e for e in log.events if e[0] in ("dispatch", "deliver", "pool")]
        out.digest = log.digest()
        out.tape = list(ch.tape)
        wl_digest = stable_hash(workload)[:16]
        out.see("schedules", stable_hash(delivery)[:16])
        out.see("workloads", wl_digest)
        if ooo or n_fail_total:
            out.see("nontrivial", wl_digest + ":" + stable_hash(delivery)[:16])
        return out

    # ------------------------------------------------------------------ shrinking
    def shrink_items(self, wl):
        return list(wl["tasks"])

    def with_items(self, wl, items):
        keep = {text_key(p) for t in items for p in t["parts"]}
        return dict(wl, tasks=list(items), plan={k: v for k, v in wl["plan"].items() if k in keep})

    def simplify(self, wl):
        # fewer parts per task, simpler texts, no fault, cheaper mode
        for i, t in enumerate(wl["tasks"]):
            if len(t["parts"]) > 1:
                for j in range(len(t["parts"])):
                    parts = t["parts"][:j] + t["parts"][j + 1:]
                    tasks = wl["tasks"][:i] + [dict(t, parts=parts)] + wl["tasks"][i + 1:]
                    yield self.with_items(wl, tasks)
            for j, p in enumerate(t["parts"]):
                if p != corpus.MICRO[0] and text_key(p) not in wl["plan"]:
                    parts = t["parts"][:j] + [corpus.MICRO[0]] + t["parts"][j + 1:]
                    tasks = wl["tasks"][:i] + [dict(t, parts=parts)] + wl["tasks"][i + 1:]
                    yield self.with_items(wl, tasks)
        for k in list(wl["plan"]):
            plan = dict(wl["plan"])
            del plan[k]
            yield dict(wl, plan=plan)
        if wl["mode"] != "memoparse":
            yield dict(wl, mode="memoparse")
        if wl.get("start") == "spawn":
            yield dict(wl, start="fork")
        if wl.get("pool_fail"):
            yield {k: v for k, v in wl.items() if k != "pool_fail"}

    def finding_key(self, wl, v):
        return v.signature()

    # ------------------------------------------------------------------ evidence
    def nontrivial_rule(self):
        return ("one case = (workload, schedule): a generated dict of 0..48 named behaviours (1..4 parts; micro, corpus, "
                "two-part compounds, syntactically broken, fault-injected) run through the real Parser.parse on a SimPool "
                "whose size 1..16, task->worker assignment and delivery order come from the seed. Distinct = distinct "
                "(workload digest, dispatch/delivery-order digest); non-trivial = at least one completion was delivered "
                "out of submission order or at least one entry failed (natural parse error or injected exception).")

    def assumptions(self):
        return ["SimPool models multiprocessing.Pool's contract (sim/simpool.py docstring); spot-checked against the real Pool",
                "stub: pool dispatcher/scheduler; Lark object memo (objmemo runs) and parse-result memo (memoparse runs); "
                "'real' runs construct and run lark for every task exactly as shipped",
                "real: Parser.parse, parse_single, ParsedInsn/ParserException, pickling, forked worker processes, tqdm, "
                "git subprocess of Conf.get_path, lark + working-tree grammar",
                "worker death (SIGKILL/SystemExit) is not injected: the statement speaks of behaviours that fail to parse",
                "fault 'fired' counters are derived from the plan (a planned fault fires iff sequential parsing reaches its part)"]

    def evidence_extra(self, agg):
        c = agg.counters
        return {
            "fault_kinds_fired": {k[len("fault_fired_"):]: v for k, v in sorted(c.items()) if k.startswith("fault_fired_")},
            "natural_parse_errors": {k[len("natural_parse_error_"):]: v for k, v in sorted(c.items()) if k.startswith("natural_parse_error_")},
            "pool_sizes_seen": {k[len("poolsize_"):]: v for k, v in sorted(c.items()) if k.startswith("poolsize_")},
            "components": {"real": ["Parser.parse", "parse_single", "pickling", "forked workers", "lark+grammar", "tqdm"],
                           "stub": ["pool scheduler (SimPool)", "Lark memo (declared per run mode)"]},
            "distinct_schedules": len(agg.distinct.get("schedules", ())),
            "distinct_workloads": len(agg.distinct.get("workloads", ())),
            "logical_steps": c.get("sched_steps", 0),
        }

    def post_batch(self, agg, base_seed):
        """Model validation: a few workloads through the *real* multiprocessing.Pool, in a child
        process with a wall limit (the real pool is allowed to hang; the simulation is not)."""
        import json
        import signal
        import time
        k = 3 if self.tier == "quick" else 12
        r, w = os.pipe()
        pid = os.fork()
        if pid == 0:
            try:
                os.setsid()
                os.close(r)
                res = self._validate_real(base_seed, k)
                os.write(w, json.dumps(res).encode())
            except BaseException as e:  # noqa: BLE001
                try:
                    os.write(w, json.dumps({"error": repr(e)[:300]}).encode())
                except OSError:
                    pass
            finally:
                os._exit(0)
        os.close(w)
        deadline = time.time() + (120 if self.tier == "quick" else 400)
        done = False
        while time.time() < deadline:
            p, _ = os.waitpid(pid, os.WNOHANG)
            if p:
                done = True
                break
            time.sleep(0.1)
        if not done:
            try:
                os.killpg(pid, signal.SIGKILL)
            except OSError:
                pass
            os.waitpid(pid, 0)
            os.close(r)
            return {"traces_validated_against_impl": 0, "real_pool_validation": "timed out (real pool hung); not counted"}
        data = b""
        while True:
            c = os.read(r, 1 << 16)
            if not c:
                break
            data += c
        os.close(r)
        try:
            res = json.loads(data.decode())
        except ValueError:
            return {"traces_validated_against_impl": 0, "real_pool_validation": "child produced no result"}
        if "error" in res:
            return {"traces_validated_against_impl": 0, "real_pool_validation": "error: " + res["error"]}
        for wl in res["bad"]:
            # the shipped pool itself disagrees: report through the normal path (replayed on SimPool)
            v = Violation("C18", "seq-ref", "real-pool-disagrees", "", {"workload": self.describe(wl)})
            agg.violations.append({"index": 10**6, "seed": 0, "violation": v.to_json(), "workload": wl, "tape": []})
        return {"traces_validated_against_impl": res["ok"]}

    def _validate_real(self, base_seed, k):
        self.worker_init(0)
        ok, bad = 0, []
        for i in range(k):
            ch = Chooser(seed=int(stable_hash(base_seed, "validate", i)[:12], 16))
            wl = self.generate(ch, 10**6 + i)
            # natural errors only: injected fault classes live in this process' module and the
            # unpickle-failure ones hang the real pool by design
            first = [t for t in wl["tasks"] if t.get("call", 0) == 0][:6]
            wl = {"mode": "real", "tasks": [dict(t, call=0) for t in first], "plan": {}}
            exp = self.reference(wl)
            old_err = sys.stderr
            sys.stderr = self._devnull
            try:
                res = self.P.Parser.parse({t["name"]: list(t["parts"]) for t in wl["tasks"]})
            finally:
                sys.stderr = old_err
            good = set(res) == set(exp)
            for name, (kind, val) in exp.items():
                e = res.get(name)
                if e is None:
                    good = False
                elif kind == "ok":
                    good &= e.exception is None and [trees.canon(a) for a in e.asts] == val
                else:
                    good &= e.exception is not None and e.exception.name == val and e.asts == []
            if good:
                ok += 1
            else:
                bad.append(wl)
        return {"ok": ok, "bad": bad}


ENGINE = EngineP
