"""Shared machinery of the engine-H checks (C14, C13, C08)."""
from __future__ import annotations

import os
import sys

from common import EngineBase, Outcome
from sim import attrmodel, corpus, gen_beh, norm
from sim.core import Chooser, EventLog, HarnessError, Violation, repo_dir, stable_hash
from sim.history import ZygoteFarm

FMTS = ["READ_STATEMENTS", "EXEC_CLASSES"]
FAULT_EXC = ["MemoryError", "RecursionError", "ValueError", "KeyError"]
COMPILE_OPS = ("stmt", "insn", "fresh", "loaded_insn", "fresh2", "compile_parsed", "xform2")

SUB_CATALOGUE = [
    {"name": "vf_add3", "ret": "int32_t", "params": ["int32_t a", "int32_t b"], "body": "{ return a + b + 3; }"},
    {"name": "vf_wide", "ret": "uint64_t", "params": ["uint32_t p"], "body": "{ uint64_t w = p; return w << 1; }"},
    {"name": "vf_sel", "ret": "int32_t", "params": ["int32_t c", "int32_t x"], "body": "{ int32_t r = 0; if (c) { r = x; } else { r = -x; } return r; }"},
    {"name": "vf_bad", "ret": "int32_t", "params": ["int32_t c"], "body": "{ while (c) { c = c - 1; } return c; }"},
    # rejected while a call of the same expression is still pending
    {"name": "vf_bad2", "ret": "uint32_t", "params": ["uint32_t x"], "body": "{ return clz32(x) + vf_no_such_function(x); }"},
    # calls a routine that was registered at run time (on whatever instance)
    {"name": "vf_outer", "ret": "int32_t", "params": ["int32_t a"], "body": "{ return vf_add3(a, 1) + 1; }", "needs": ["vf_add3"]},
    # bodies that access memory: a caller's attributes are those of its own text, whatever its callee does
    {"name": "vf_st", "ret": "void", "params": ["uint32_t addr", "int32_t v"], "body": "{ EA = addr; mem_store_u32(EA, v); }"},
    {"name": "vf_ldx", "ret": "int32_t", "params": ["uint32_t addr"], "body": "{ EA = addr; int32_t x = mem_load_s32(EA); return x; }"},
]
# macros re-registered through the public API with another RzIL spelling: the table is per compiler instance
MACRO_OVERRIDES = [
    {"name": "bswap32", "ret": "uint32_t", "params": ["uint32_t"], "rzil": "BSWAP32_ALT"},
    {"name": "extract32", "ret": "uint32_t", "params": ["uint32_t", "int32_t", "int32_t"], "rzil": "EXTRACT32_ALT"},
]
MACRO_USERS = {"bswap32": ["{ RdV = bswap32(RsV); }", "{ RdV = bswap32(RsV) + 1; }"],
               "extract32": ["{ RdV = extract32(RsV, 0, 8); }", "{ RdV = PuV ? extract32(RsV, 0, 8) : RtV; }"]}
SUB_CALLERS = {
    "vf_add3": ["{ RdV = vf_add3(RsV, RtV); }", "{ RdV = vf_add3(RsV, 1) + vf_add3(RtV, 2); }"],
    "vf_wide": ["{ RddV = vf_wide(RsV); }"],
    "vf_sel": ["{ RdV = vf_sel(PuV, RsV); }"],
    "vf_bad": ["{ RdV = vf_bad(RsV); }"],           # its registration always raises: the call must stay rejected
    "vf_bad2": ["{ RdV = vf_bad2(RsV); }", "{ RdV = clz32(RsV); }"],
    "vf_outer": ["{ RdV = vf_outer(RsV); }", "{ RdV = vf_outer(RsV) + vf_add3(RtV, 2); }"],
    "vf_st": ["{ vf_st(RsV, RtV); }", "{ if (PuV) { vf_st(RsV, 1); } }"],
    "vf_ldx": ["{ RdV = vf_ldx(RsV); }", "{ RdV = vf_ldx(RsV) + vf_ldx(RtV); }"],
}
WARMUP_BIG = "{ int32_t wq = RsV; RdV = wq++ + wq++ + wq++ + wq++ + wq++ + wq++ + wq++ + wq++; }"     # +8 temporaries
WARMUP_ONE = "{ int32_t wq = RsV; RdV = wq++; }"                                                     # +1
# behaviours with several temporaries, some of them without a parent statement
MULTI_HYBRID = [
    "{ i++; k++; }", "{ i++; j++; k++; RdV = i; }", "{ int32_t a1 = 0; int32_t b1 = 0; a1++; b1++; RdV = a1 + b1; }",
    "{ RdV = clz32(RsV) + clo32(RtV); }", "{ int32_t t1 = RsV; RdV = t1++ + t1++ + t1++; }", "{ RdV = clz32(RsV) + RtV++; }",
    "{ i++; RdV = clz32(RsV); k++; }",
]
# statements that are the same text once whitespace is removed, or differ in one token boundary
STMT_TWINS = [
    ("{ int32_t t1 = RsV; RdV = t1-- - RtV; }", "{ int32_t t1 = RsV; RdV = t1 - --RtV; }"),
    ("{ int32_t t1 = RsV; t1 <<= 2; RdV = t1; }", "{ int32_t t1 = RsV; t1 << = 2; RdV = t1; }"),
    ("{ int32_t t2 = RsV; RdV = t2++ + RtV; }", "{ int32_t t2 = RsV; RdV = t2 + ++RtV; }"),
    ("{ RdV = RsV & RtV; }", "{ RdV = RsV && RtV; }"),
    # a rejected use next to the accepted one: surplus macro / routine arguments, a name that is never declared
    ("{ RdV = extract32(RsV, 0, 8, 1); }", "{ RdV = extract32(RsV, 0, 8); }"),
    ("{ RddV = sextract64(RssV, 0, 16, 2); }", "{ RddV = sextract64(RssV, 0, 16); }"),
    ("{ RdV = deposit32(RsV, 0, 8, RtV, 1); }", "{ RdV = deposit32(RsV, 0, 8, RtV); }"),
    ("{ RdV = clz32(RsV, RtV); }", "{ RdV = clz32(RsV); }"),
    ("{ n = RsV; }", "{ RdV = n; }"),
    ("{ cnt = RsV + 1; RdV = cnt; }", "{ RdV = cnt + 1; }"),
]


class HistEngine(EngineBase):
    prop = "C14"
    catalogue_size = 260
    tiers = {"quick": dict(budget_s=60, max_runs=10**9, workers=16),
             "thorough": dict(budget_s=1500, max_runs=10**9, workers=16)}
    per_run_timeout = 300.0
    max_ops = {"quick": 28, "thorough": 60}

    # ------------------------------------------------------------------ set-up
    def _load(self):
        self.tc = corpus.TreeCache()
        self.beh = corpus.load_behaviours()
        self.noped = attrmodel.noped_list()
        self.catalogue = gen_beh.HANDWRITTEN + gen_beh.generated_catalogue(self.catalogue_size)
        self.failing = gen_beh.failing_behaviours()
        self.sub_callers = [t for v in SUB_CALLERS.values() for t in v]
        self.shapes = gen_beh.callee_shapes()
        self.shape_keys = sorted(self.shapes)
        self._focus = None
        shape_texts = [t for v in self.shapes.values() for t in v]
        twin_texts = [t for pair in STMT_TWINS for t in pair] + MULTI_HYBRID + [WARMUP_BIG, WARMUP_ONE] + [t for v in MACRO_USERS.values() for t in v]
        self.extra_texts = sorted(set(self.catalogue + self.failing + self.sub_callers + gen_beh.PARSE_ERRORS + shape_texts + twin_texts))

    def corpus_sample(self):
        """Corpus instructions this tier draws from (all of them when the cache is complete)."""
        names = sorted(n for n, parts in self.beh.items() if all(p in self.tc.data and self.tc.data[p][0] == "ok" for p in parts))
        return names

    def parent_init(self):
        self._load()
        need = list(self.extra_texts)
        have_corpus = sum(1 for parts in self.beh.values() for p in parts if p in self.tc.data)
        total = sum(len(p) for p in self.beh.values())
        if have_corpus < total:
            # cache incomplete (setup not run, or the grammar changed): parse a sample on the fly
            names = sorted(self.beh)
            step = max(1, len(names) // (140 if self.tier == "quick" else 600))
            for n in names[::step]:
                need += self.beh[n]
            comp = [n for n in names if len(self.beh[n]) == 2][:12]
            for n in comp:
                need += self.beh[n]
        self.tc.get(need, workers=16, quiet=False)
        self.nslots = 17
        try:
            self.farm = ZygoteFarm(self.tc.data, self.nslots)
        except RuntimeError as e:
            raise HarnessError("cannot construct a Compiler in the zygote: " + str(e)[-1500:])

    def parent_fini(self):
        if getattr(self, "farm", None) is not None:
            self.farm.shutdown()
            self.farm = None

    def worker_init(self, wid):
        if getattr(self, "farm", None) is None:
            # replay / digests entry points come here without parent_init
            self.parent_init()
            wid = self.nslots - 1
            self._own_farm = True
        self.names = self.corpus_sample()
        self.compound_names = [n for n in self.names if len(self.beh[n]) == 2]
        self.parse_ok_extra = [t for t in self.extra_texts if self.tc.data.get(t, ("exc",))[0] == "ok"]
        self.catalogue_ok = [t for t in self.catalogue if self.tc.data.get(t, ("exc",))[0] == "ok"]
        self.failing_ok = [t for t in self.failing if self.tc.data.get(t, ("exc",))[0] == "ok"]
        # themes: corpus instructions grouped by the helper functions / macros / aliases their text mentions.
        # History bugs are usually keyed by a feature (a parameter object, a macro, a sub-routine): a run draws a
        # third of its inputs from one theme so that two users of the same rare feature meet in one history.
        import re as _re
        themes: dict[str, list] = {}
        for n in self.names:
            toks = set()
            for p in self.beh[n]:
                toks |= set(_re.findall(r"\b([A-Za-z_]\w*)\s*\(", p))
                toks |= set(_re.findall(r"\bHEX_REG_ALIAS_\w+", p))
            for t in toks:
                themes.setdefault(t, []).append(n)
        for text in self.catalogue_ok:
            toks = set(_re.findall(r"\b([A-Za-z_]\w*)\s*\(", text)) | set(_re.findall(r"\bHEX_REG_ALIAS_\w+", text))
            if "({" in text:
                toks.add("stmt-expr")
            if "?" in text:
                toks.add("ternary")
            for t in toks:
                themes.setdefault(t, []).append(("cat", text))
        self.themes = {t: v for t, v in sorted(themes.items()) if 2 <= len(v)}
        self.theme_keys = sorted(self.themes)
        self._theme = None
        self.sim = self.farm.client(wid if wid < self.nslots - 1 else self.nslots - 1)
        if not hasattr(self, "refs"):
            self.refs: dict = {}

    def worker_fini(self, wid):
        if getattr(self, "_own_farm", False):
            self.parent_fini()
            self._own_farm = False

    # ------------------------------------------------------------------ reference: first on a fresh compiler
    def ref(self, fmt: str, name: str, part: str, subs: tuple = (), macros: tuple = ()):
        key = (fmt, name, part, subs, macros)
        hit = self.refs.get(key)
        if hit is not None:
            return hit
        cached = self.tc.data.get(part)
        if cached is not None and cached[0] != "ok":
            hit = {"status": "exc", "exc": cached[1], "ncb": 0, "parse_error": True}
        else:
            ops = [dict(m, op="add_macro", inst=0) for m in MACRO_OVERRIDES if m["name"] in macros]
            ops += [dict(s, op="add_sub", inst=0) for s in subs_ops(subs)]
            ops.append({"op": "insn", "inst": 0, "name": name, "parts": [part], "via": "transform_insn"})
            o = self.sim.execute(fmt, ops)[-1]
            if o["status"] == "ok":
                p = o["parts"][0]
                hit = {"status": "ok", "code": p["code"], "norm": norm.normalise(p["code"], part),
                       "meta": sorted(p["meta"]), "ncb": o["ncb"], "needs_hi": o["needs_hi"][0], "needs_pkt": o["needs_pkt"][0]}
            else:
                hit = {"status": "exc", "exc": o["exc"], "ncb": o["ncb"]}
        self.refs[key] = hit
        return hit

    # ------------------------------------------------------------------ workload pieces
    def gen_input(self, ch: Chooser, want_fail_weight=2):
        """-> (name, parts, origin)"""
        if self._focus is not None and ch.chance(2, 5, "focused"):
            # object-focused run: different use-shapes of one shared callee object meet in one history
            t = ch.choice(self.shapes[self._focus], "shape")
            if self.tc.data.get(t, ("exc",))[0] == "ok":
                return "use_" + stable_hash(t)[:8], [t], "shape"
        if self._theme is not None and ch.chance(1, 3, "themed"):
            n = ch.choice(self.themes[self._theme], "theme-insn")
            if isinstance(n, tuple):
                return "gen_" + stable_hash(n[1])[:8], [n[1]], "catalogue"
            return n, list(self.beh[n]), "corpus"
        k = ch.weighted([("corpus", 10), ("compound", 3 if self.compound_names else 0), ("part", 2 if self.compound_names else 0),
                         ("cat", 6 if self.catalogue_ok else 0), ("fail", want_fail_weight if self.failing_ok else 0),
                         ("subcaller", 1)], "input")
        if k == "corpus":
            n = ch.choice(self.names, "insn")
            return n, list(self.beh[n]), "corpus"
        if k == "compound":
            n = ch.choice(self.compound_names, "cinsn")
            return n, list(self.beh[n]), "compound"
        if k == "part":
            n = ch.choice(self.compound_names, "pinsn")
            j = ch.draw(2, "which")
            return n, [self.beh[n][j]], "part-alone"
        if k == "cat":
            t = ch.choice(self.catalogue_ok, "cat")
            return "gen_" + stable_hash(t)[:8], [t], "catalogue"
        if k == "fail":
            t = ch.choice(self.failing_ok, "fail")
            return "bad_" + stable_hash(t)[:8], [t], "failing"
        t = ch.choice(self.sub_callers, "subc")
        return "sc_" + stable_hash(t)[:8], [t], "subcaller"

    def name_variant(self, ch: Chooser, name: str, used=()):
        r = ch.draw(14, "namevar")
        if r == 0:
            return "dep_" + name
        if r == 1:
            return name + "_undocumented"
        if r == 2:
            return "IMPORTED_" + name
        if r == 3:
            return "undocumented_" + name
        if r == 4 and self.noped:
            return ch.choice(self.noped, "noped")
        if r == 5 and self.noped:
            n = ch.choice(self.noped, "noped")
            return ch.choice(["dep_" + n, "IMPORTED_" + n, "undocumented_" + n, n + "_undocumented",
                              # not on the list: merely starts (or ends) like a listed name
                              n + "_pair", n + "s", "dep_" + n + "_v2", "x" + n, n[:-1]], "noped-alias")
        if r in (6, 7):
            # the API takes any name: a name this history already compiled (with another behaviour), else any other one
            if used:
                return ch.choice(sorted(used), "usedname")
            return ch.choice(self.names, "othername")
        return name

    def gen_fault(self, ch: Chooser, fmt, name, parts, subs):
        total = 0
        for p in parts:
            r = self.ref(fmt, name, p, subs)
            total += r["ncb"]
            if r["status"] != "ok":
                break
        at = ch.draw(total + 1, "fault.at") if total else 0
        if ch.chance(1, 3, "fault.site"):
            # inside a callback: right after the extension recorded a flag (there are about as many such calls as callbacks)
            return {"site": "meta", "at": ch.draw(max(1, total + 1), "fault.meta.at"), "when": "post", "exc": ch.choice(FAULT_EXC, "fault.exc")}
        return {"at": at, "when": ch.choice(["pre", "post"], "fault.when"), "exc": ch.choice(FAULT_EXC, "fault.exc")}

    # ------------------------------------------------------------------ execution
    def execute(self, workload, tape, seed) -> Outcome:
        out = Outcome()
        log = EventLog()
        ops = workload["ops"]
        fmt0 = workload["fmt0"]
        try:
            obs = self.sim.execute(fmt0, ops)
        except RuntimeError as e:
            raise HarnessError(str(e))
        self.judge(workload, obs, out, log)
        out.digest = log.digest()
        out.tape = []
        return out

    def judge(self, workload, obs, out: Outcome, log: EventLog):
        raise NotImplementedError

    # ------------------------------------------------------------------ shrinking
    def shrink_items(self, wl):
        return list(wl["ops"])

    def with_items(self, wl, items):
        return dict(wl, ops=list(items))

    def simplify(self, wl):
        ops = wl["ops"]
        for i, op in enumerate(ops):
            if op.get("fault"):
                yield dict(wl, ops=ops[:i] + [{k: v for k, v in op.items() if k != "fault"}] + ops[i + 1:])
            if op["op"] == "insn" and len(op["parts"]) > 1:
                for j in range(len(op["parts"])):
                    yield dict(wl, ops=ops[:i] + [dict(op, parts=[op["parts"][j]])] + ops[i + 1:])
            if op["op"] == "insn" and op.get("via") == "compile_insn":
                yield dict(wl, ops=ops[:i] + [dict(op, via="transform_insn")] + ops[i + 1:])
            if op["op"] in COMPILE_OPS and op.get("inst", 0) != 0:
                yield dict(wl, ops=ops[:i] + [dict(op, inst=0)] + ops[i + 1:])
        if wl["fmt0"] != "READ_STATEMENTS":
            yield dict(wl, fmt0="READ_STATEMENTS")

    def describe(self, wl):
        def short(op):
            d = {k: v for k, v in op.items() if k not in ("parts", "code", "body")}
            if "parts" in op:
                d["parts"] = [p[:70] for p in op["parts"]]
            if "code" in op:
                d["code"] = op["code"][:90]
            return d
        ops = wl["ops"]
        d = {"fmt0": wl["fmt0"], "n_ops": len(ops), "ops": [short(o) for o in ops[:30]]}
        if len(ops) > 30:
            d["ops"].append({"note": f"... {len(ops) - 30} more operations"})
        return d

    def assumptions(self):
        return ["real: everything in rzilcompiler, incl. Conf.get_path's git subprocesses; one fork of a pristine zygote per run",
                "stub: none in the system under test; parse trees of corpus/catalogue texts come from a cache produced by the real "
                "lark with the working tree's grammar (keyed on the grammar text)",
                "reference = the same input compiled first on a fresh Compiler of the same CodeFormat with the same registered sub-routines",
                "injected crash points: exception raised before/after the k-th RZILTransformer callback of the armed compilation"]


def subs_ops(subs: tuple):
    by_name = {s["name"]: s for s in SUB_CATALOGUE}
    return [by_name[n] for n in subs if n in by_name]


def track_state(ops):
    """Replays the bookkeeping of a history: instance formats and registered sub-routines before each op."""
    raise NotImplementedError
