"""Generic driver: batch -> group violations -> shrink -> confirm in a fresh interpreter ->
known-findings classification -> evidence.

An engine provides

    prop                      property id
    tiers                     {"quick": {...}, "thorough": {...}}  budget_s, max_runs, workers
    worker_init(wid) / worker_fini(wid)
    generate(chooser, index) -> workload (JSON-able dict)
    execute(workload, tape|None, seed) -> Outcome
    shrink_items(workload) -> list ; with_items(workload, items) -> workload
    simplify(workload) -> iterable of simpler candidate workloads
    finding_key(workload, violation) -> str        (input class of a violation, for known findings)
    describe(workload) -> short JSON-able form for samples
    evidence_extra(agg) -> dict merged into coverage
"""
from __future__ import annotations

import argparse
import json
import os
import re
import subprocess
import sys
import time
import traceback

HERE = os.path.dirname(os.path.abspath(__file__))
VERIF = os.path.dirname(HERE)
if VERIF not in sys.path:
    sys.path.insert(0, VERIF)

from sim import core  # noqa: E402
from sim.batch import Aggregate, run_batch  # noqa: E402
from sim.core import Chooser, HarnessError, Violation, derive_seed  # noqa: E402


class Outcome:
    def __init__(self):
        self.violations: list[Violation] = []
        self.digest = ""
        self.tape: list[int] = []
        self.counters: dict[str, int] = {}
        self.distinct: dict[str, list[str]] = {}
        self.compared = 0
        self.info = {}

    def count(self, k, n=1):
        self.counters[k] = self.counters.get(k, 0) + n

    def see(self, fam, key):
        self.distinct.setdefault(fam, []).append(key)


class EngineBase:
    prop = "C00"
    level = "exploration"
    tiers = {"quick": dict(budget_s=60, max_runs=10**9, workers=16),
             "thorough": dict(budget_s=1200, max_runs=10**9, workers=16)}
    per_run_timeout = 180.0
    shrink_budget = 200
    shrink_wall_s = 120.0

    def __init__(self, tier="quick"):
        self.tier = tier

    # -- hooks
    def parent_init(self):
        """Runs once in the driver before the batch workers are forked."""

    def parent_fini(self):
        """Runs once in the driver at the very end."""

    def worker_init(self, wid):
        pass

    def worker_fini(self, wid):
        pass

    def generate(self, chooser, index):
        raise NotImplementedError

    def execute(self, workload, tape, seed) -> Outcome:
        raise NotImplementedError

    def shrink_items(self, workload):
        return []

    def with_items(self, workload, items):
        return workload

    def simplify(self, workload):
        return []

    def finding_key(self, workload, violation):
        return violation.signature()

    def describe(self, workload):
        return workload

    def evidence_extra(self, agg):
        return {}

    def nontrivial_rule(self):
        return ""

    def assumptions(self):
        return []

    def post_batch(self, agg, base_seed):
        """Extra work in the parent after the batch (model validation, determinism slice...)."""
        return {}

    # -- one run inside a batch worker
    def run(self, index, seed, agg: Aggregate):
        gen = Chooser(seed=derive_seed(seed, "gen"))
        workload = self.generate(gen, index)
        out = self.execute(workload, None, derive_seed(seed, "sched"))
        agg.count("compared", out.compared)
        for k, v in out.counters.items():
            agg.count(k, v)
        for fam, keys in out.distinct.items():
            for k in keys:
                agg.see(fam, k)
        if index < 24:
            agg.samples.append({"index": index, "seed": seed, "digest": out.digest,
                                "workload": self.describe(workload) if index < 3 else None})
        for v in out.violations[:3]:
            agg.violations.append({"index": index, "seed": seed, "violation": v.to_json(),
                                   "workload": workload, "tape": out.tape})


def _same_sig(outcome: Outcome, sig: str):
    for v in outcome.violations:
        if v.signature() == sig:
            return v
    return None


def shrink(engine: EngineBase, workload, tape, seed, sig: str):
    """Returns (workload, tape, violation) minimised while the same signature persists."""
    t_end = time.time() + engine.shrink_wall_s
    budget = [engine.shrink_budget]

    def attempt(wl, tp):
        if time.time() > t_end:
            budget[0] = 0
            return None
        try:
            out = engine.execute(wl, tp, seed)
        except HarnessError:
            return None
        return _same_sig(out, sig)

    best_v = attempt(workload, tape)
    if best_v is None:
        return None
    cur_wl, cur_tape = workload, list(tape)

    # 1. ddmin over the item list
    items = engine.shrink_items(cur_wl)
    if len(items) > 1:
        def fails(cand):
            return attempt(engine.with_items(cur_wl, cand), cur_tape) is not None
        small = core.ddmin(items, fails, budget)
        cand = engine.with_items(cur_wl, small)
        v = attempt(cand, cur_tape)
        if v is not None:
            cur_wl, best_v = cand, v
    # 2. per-item simplification, to a fixed point
    progress = True
    while progress and budget[0] > 0:
        progress = False
        for cand in engine.simplify(cur_wl):
            if budget[0] <= 0:
                break
            budget[0] -= 1
            v = attempt(cand, cur_tape)
            if v is not None:
                cur_wl, best_v, progress = cand, v, True
                break
    # 3. lower the residual tape
    for cand_tape in ([], cur_tape[:len(cur_tape) // 2], [min(x, 1) for x in cur_tape]):
        if budget[0] <= 0:
            break
        budget[0] -= 1
        v = attempt(cur_wl, cand_tape)
        if v is not None:
            cur_tape, best_v = list(cand_tape), v
            if not cand_tape:
                break
    # the tape actually consumed by the final execution
    out = engine.execute(cur_wl, cur_tape, seed)
    v = _same_sig(out, sig)
    if v is None:
        return None
    return cur_wl, out.tape, v


def load_known():
    p = os.path.join(VERIF, "known_findings.json")
    if not os.path.exists(p):
        return []
    with open(p) as f:
        return json.load(f).get("findings", [])


def match_known(known, prop, sig, key):
    for k in known:
        if k.get("property") != prop or k.get("status") != "known":
            continue
        if not re.fullmatch(k["signature"], sig):
            continue
        if not re.fullmatch(k.get("key", ".*"), key):
            continue
        return k
    return None


def ensure_env():
    """Fresh interpreters with a fixed hash seed: set iteration order must never decide anything,
    and the determinism self-test re-runs under other values."""
    if os.environ.get("PYTHONHASHSEED") is None:
        env = dict(os.environ, PYTHONHASHSEED="0")
        os.execve(sys.executable, [sys.executable] + sys.argv, env)


def replay_file(engine: EngineBase, path: str) -> int:
    data = core.read_json(path)
    out = engine.execute(data["workload"], data.get("tape", []), data.get("seed", 0))
    want = data.get("signature")
    print(f"replay {path}: digest={out.digest} violations={[v.signature() for v in out.violations]}")
    hit = [v for v in out.violations if want is None or v.signature() == want]
    if hit:
        for v in hit[:1]:
            print(json.dumps(v.to_json(), indent=1, default=str)[:4000])
            print(f"VIOLATION property={engine.prop} replay={path}")
        return 1
    if out.violations:
        print("different violation than recorded:")
        for v in out.violations[:3]:
            print(f"VIOLATION property={engine.prop} replay={path}")
            print(json.dumps(v.to_json(), indent=1, default=str)[:2000])
        return 1
    print("no violation on replay")
    return 0


def confirm_fresh(engine: EngineBase, path: str, script: str, attempts: int = 1) -> int:
    """Replays the file in brand-new interpreters; returns in how many of `attempts` replays the recorded
    signature reproduced (a system under test that behaves nondeterministically may need several)."""
    env = dict(os.environ)
    env["PYTHONHASHSEED"] = "0"
    hits = 0
    for attempt in range(attempts):
        # (retries run under other hash seeds: behaviour that depends on object addresses / set order varies with them)
        env["PYTHONHASHSEED"] = str(attempt)
        try:
            r = subprocess.run([sys.executable, script, engine.prop, "--replay", path], env=env,
                               stdout=subprocess.PIPE, stderr=subprocess.STDOUT, timeout=600, text=True)
        except subprocess.TimeoutExpired:
            continue
        if r.returncode == 1 and "VIOLATION property=" in r.stdout:
            hits += 1
            if attempts == 1 or hits >= 2:
                break
    return hits


def write_evidence(engine: EngineBase, tier, seed, agg: Aggregate | None, wall, n_viol, extra, notes):
    cov = {}
    if agg is not None:
        nontrivial = len(agg.distinct.get("nontrivial", ()))
        cov.update({
            "evaluations": int(agg.runs),
            "distinct_nontrivial": int(nontrivial),
            "rule": engine.nontrivial_rule(),
            "samples": [s for s in sorted(agg.samples, key=lambda s: s["index"]) if s.get("workload") is not None][:3]
                       or [{"note": "no sample recorded"}],
            "runs": agg.runs,
            "runs_per_hour": int(agg.runs / max(wall, 1e-9) * 3600),
            "compared_operations": agg.counters.get("compared", 0),
            "counters": dict(sorted(agg.counters.items())),
            "distinct_counts": {k: len(v) for k, v in sorted(agg.distinct.items())},
            "seeds": {"base": seed, "first_run_indices": sorted(agg.first_indices)[:8],
                      "derivation": "run seed = sha256(VERIF_SEED, property, run index)"},
            "simulated_time": "none: the system has no timers or deadlines; logical steps are reported instead",
        })
    cov.update(extra or {})
    cov.setdefault("evaluations", 0)
    cov.setdefault("distinct_nontrivial", 0)
    cov.setdefault("rule", engine.nontrivial_rule())
    cov.setdefault("samples", [{"note": "no run completed"}])
    ev = {
        "property_id": engine.prop, "tier": tier, "seed": int(seed), "level": engine.level,
        "coverage": cov, "assumptions": engine.assumptions(), "wall_s": round(wall, 2),
        "violations": int(n_viol), "notes": notes,
    }
    core.write_json(os.path.join(VERIF, "evidence", f"{engine.prop}.json"), ev)


def main(engine_cls, script):
    holder = []
    try:
        return _main(engine_cls, script, holder)
    finally:
        for e in holder:
            try:
                e.parent_fini()
            except Exception:
                traceback.print_exc()


def _main(engine_cls, script, holder):
    ap = argparse.ArgumentParser()
    ap.add_argument("prop")
    ap.add_argument("--tier", default=os.environ.get("VERIF_TIER", "quick"), choices=["quick", "thorough"])
    ap.add_argument("--replay")
    ap.add_argument("--digests", help="print digests of run indices a..b (determinism self-test)")
    ap.add_argument("--budget", type=float, default=None)
    ap.add_argument("--max-runs", type=int, default=None)
    ap.add_argument("--workers", type=int, default=None)
    args = ap.parse_args()
    if args.replay:
        args.replay = os.path.abspath(args.replay)
    ensure_env()
    try:
        core.setup_repo_imports()
        engine = engine_cls(args.tier)
        holder.append(engine)
    except Exception:
        traceback.print_exc()
        print(f"HARNESS-ERROR property={args.prop} cannot set up engine")
        return 2
    base_seed = int(os.environ.get("VERIF_SEED", core.DEFAULT_SEED))

    if args.replay:
        try:
            engine.worker_init(0)
            rc = replay_file(engine, args.replay)
            engine.worker_fini(0)
            return rc
        except Exception:
            traceback.print_exc()
            print(f"HARNESS-ERROR property={args.prop} replay failed")
            return 2

    if args.digests:
        a, b = (int(x) for x in args.digests.split(".."))
        engine.worker_init(0)
        for idx in range(a, b):
            seed = derive_seed(base_seed, engine.prop, idx)
            wl = engine.generate(Chooser(seed=derive_seed(seed, "gen")), idx)
            out = engine.execute(wl, None, derive_seed(seed, "sched"))
            print(f"DIGEST {idx} {out.digest} {len(out.violations)}")
        engine.worker_fini(0)
        return 0

    cfg = dict(engine.tiers[args.tier])
    if os.environ.get("VERIF_BUDGET_S"):
        cfg["budget_s"] = float(os.environ["VERIF_BUDGET_S"])
    if args.budget is not None:
        cfg["budget_s"] = args.budget
    if args.max_runs is not None:
        cfg["max_runs"] = args.max_runs
    if args.workers is not None:
        cfg["workers"] = args.workers
    t0 = time.time()
    notes = []
    try:
        engine.parent_init()
        agg = run_batch(engine, engine.prop, base_seed, workers=cfg["workers"], budget_s=cfg["budget_s"],
                        max_runs=cfg["max_runs"], per_run_timeout=engine.per_run_timeout)
        if agg.runs > 0 and agg.counters.get("compared", 0) == 0 and not agg.violations:
            raise HarnessError("the oracle compared nothing in any run (workload or emitted text not understood by the harness)")
        extra = engine.evidence_extra(agg)
        extra.update(engine.post_batch(agg, base_seed) or {})
    except HarnessError as e:
        print(str(e)[-6000:], file=sys.stderr)
        print(f"HARNESS-ERROR property={engine.prop} {str(e).splitlines()[0][:300]}")
        write_evidence(engine, args.tier, base_seed, None, time.time() - t0, 0, {}, ["harness error: " + str(e)[:500]])
        return 2
    except Exception:
        traceback.print_exc()
        print(f"HARNESS-ERROR property={engine.prop} unexpected exception in driver")
        return 2

    # ---- violations: group by signature, shrink, confirm, classify
    known = load_known()
    by_sig = {}
    for rec in sorted(agg.violations, key=lambda r: r["index"]):
        by_sig.setdefault(rec["violation"]["signature"], rec)
    new_viol, known_hits, harness_problems = [], {}, []
    engine.worker_init(0)
    for sig, rec in list(by_sig.items())[:8]:
        try:
            res = shrink(engine, rec["workload"], rec["tape"], derive_seed(rec["seed"], "sched"), sig)
        except Exception:
            traceback.print_exc()
            res = None
        nondet = False
        if res is None:
            # the same workload did not fail again in-process: either the harness is at fault or the system under test is
            # not deterministic (e.g. iteration over a set of objects).  Keep the *unminimised* history and try it a few
            # times in fresh interpreters; only if it never fails again is this a harness problem.
            nondet = True
            wl, tape, v = rec["workload"], rec["tape"], Violation.from_json(rec["violation"])
        else:
            wl, tape, v = res
        key = engine.finding_key(wl, v)
        path = core.replay_path(engine.prop, core.stable_hash(sig, key)[:12])
        core.write_json(path, {"property": engine.prop, "signature": sig, "finding_key": key,
                               "workload": wl, "tape": tape, "seed": derive_seed(rec["seed"], "sched"),
                               "violation": v.to_json(), "found_by": {"run_index": rec["index"], "run_seed": rec["seed"],
                                                                     "base_seed": base_seed, "tier": args.tier}})
        hits = confirm_fresh(engine, path, script, attempts=6 if nondet else 1)
        if not hits and not nondet:
            hits = confirm_fresh(engine, path, script, attempts=4)
            nondet = bool(hits)
        if not hits and res is not None:
            # the minimised history fails only next to what this process had cached (e.g. a reference computed in another
            # memory state): go back to the history exactly as it was found
            nondet = True
            wl, tape, v = rec["workload"], rec["tape"], Violation.from_json(rec["violation"])
            key = engine.finding_key(wl, v)
            core.write_json(path, {"property": engine.prop, "signature": sig, "finding_key": key,
                                   "workload": wl, "tape": tape, "seed": derive_seed(rec["seed"], "sched"),
                                   "violation": v.to_json(), "minimised": False,
                                   "found_by": {"run_index": rec["index"], "run_seed": rec["seed"], "base_seed": base_seed, "tier": args.tier}})
            hits = confirm_fresh(engine, path, script, attempts=6)
        if not hits:
            harness_problems.append(f"violation {sig} (run {rec['index']}) did not reproduce in a fresh interpreter: {path}")
            continue
        if nondet:
            notes.append(f"{sig}: not reproduced by every replay - the system under test behaves nondeterministically on this history "
                         f"(the replay file is not minimised)")
            print(f"  note: {sig} reproduced in some replays only (nondeterministic behaviour of the code under test)")
        k = match_known(known, engine.prop, sig, key)
        if k is not None:
            known_hits.setdefault(k["id"], (k, path))
        else:
            new_viol.append((sig, key, path, v))
    engine.worker_fini(0)
    # signatures beyond the cap are still violations unless known by signature alone
    for sig, rec in list(by_sig.items())[8:]:
        notes.append(f"unprocessed violation signature {sig}")
        new_viol.append((sig, "", "(not minimised: more than 8 distinct signatures)", Violation.from_json(rec["violation"])))

    wall = time.time() - t0
    write_evidence(engine, args.tier, base_seed, agg, wall, len(new_viol), dict(extra, known_findings_seen=sorted(known_hits)), notes)
    print(f"[{engine.prop}] tier={args.tier} runs={agg.runs} compared={agg.counters.get('compared', 0)} "
          f"nontrivial={len(agg.distinct.get('nontrivial', ()))} wall={wall:.1f}s")
    for kid, (k, path) in sorted(known_hits.items()):
        print(f"KNOWN-FINDING: property={engine.prop} {kid} {k['text']} (replay={path})")
    for sig, key, path, v in new_viol:
        print(f"  signature={sig} key={key}")
        print("  " + json.dumps(v.to_json().get("detail"), default=str)[:1500])
        print(f"VIOLATION property={engine.prop} replay={path}")
    if new_viol:
        return 1
    if harness_problems:
        for h in harness_problems:
            print(f"HARNESS-ERROR property={engine.prop} {h}")
        return 2
    return 0
