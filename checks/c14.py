"""C14 - compilation results do not depend on history or on earlier failures (engine H)."""
from __future__ import annotations

from hist_common import COMPILE_OPS, FMTS, MACRO_OVERRIDES, MACRO_USERS, MULTI_HYBRID, STMT_TWINS, SUB_CALLERS, SUB_CATALOGUE, WARMUP_BIG, WARMUP_ONE, HistEngine
from sim import gen_beh, norm
from sim.core import Chooser, EventLog, Violation, stable_hash


IO_FAULT_FILES = ["noped_insns.json", "grammar.lark", "qemu_rzil_macros.json", "sub_routines.json", ".json"]
DEEP = ["{ RdV = " + "~" * n + "5; }" for n in (300, 600, 700)] + ["{ RdV = 1" + " + 1" * 200 + "; }"]


class EngineC14(HistEngine):
    prop = "C14"
    tiers = {"quick": dict(budget_s=70, max_runs=10**9, workers=16),
             "thorough": dict(budget_s=1500, max_runs=10**9, workers=16)}

    # ------------------------------------------------------------------ workload
    def generate(self, ch: Chooser, index):
        fmt0 = ch.choice(FMTS, "fmt0")
        n = ch.randint(2, self.max_ops[self.tier], "nops")
        p_fault = ch.choice([0, 1, 2, 4], "p_fault")
        fail_w = ch.choice([0, 2, 6], "fail_w")
        w_stmt = ch.choice([2, 6, 12], "w_stmt")
        w_fresh = ch.choice([0, 2, 4], "w_fresh")
        w_new = ch.choice([0, 1, 2], "w_new")
        if ch.chance(1, 8, "boundary-history"):
            return self.boundary_history(ch)
        self._theme = ch.choice(self.theme_keys, "theme") if self.theme_keys and ch.chance(2, 3, "theme?") else None
        self._focus = ch.choice(self.shape_keys, "focus") if ch.chance(1, 4, "focus?") else None
        insts = [fmt0]
        subs: list[str] = []
        ops = []
        used_names: set[str] = set()
        for _ in range(n):
            k = ch.weighted([("insn", 10), ("stmt", w_stmt), ("fresh", w_fresh), ("fresh2", w_fresh // 2), ("xform2", 2 if len(insts) > 1 else 0),
                             ("new", w_new if len(insts) < 3 else 0),
                             ("add_sub", 1), ("parse_err", fail_w // 2), ("load", 1), ("loaded_insn", 2), ("twins", 1),
                             ("add_macro", 1), ("shortcode", 1 if ch.chance(1, 6, "sc?") else 0),
                             ("deep", 1 if fail_w and ch.chance(1, 3, "deep?") else 0), ("again", 2 if ops else 0),
                             ("deeptree", 1 if ch.chance(1, 3, "deeptree?") else 0)], "opkind")
            if k == "new" and ch.chance(1, 3, "io-fault"):
                # the constructor meets an I/O fault: it may fail (nothing is created, later operations go to the other
                # instances) - but if it comes back with an instance, that instance compiles like any other
                fmt = ch.choice(FMTS, "newfmt")
                match = ch.choice(IO_FAULT_FILES, "iofile")
                kind_ = ch.choice(["EIO", "EMFILE", "ENOENT"] + (["torn"] if match.endswith(".json") else []), "iokind")
                ops.append({"op": "new_compiler", "fmt": fmt, "io_fault": {"match": match, "kind": kind_, "nth": 1}})
                would_be = len(insts)
                for _ in range(ch.randint(1, 3, "after-io")):
                    name, parts, origin = self.gen_input(ch, 0)
                    if self.noped and ch.chance(1, 2, "noped-after-io"):
                        name = ch.choice(self.noped, "noped-io")
                    ops.append({"op": "insn", "inst": would_be, "name": name, "parts": parts, "via": "transform_insn"})
                continue
            if k == "new":
                fmt = ch.choice(FMTS, "newfmt")
                ops.append({"op": "new_compiler", "fmt": fmt})
                insts.append(fmt)
                usable = [n for n in subs if SUB_CALLERS.get(n)]
                if usable and ch.chance(1, 2, "call-after-new-instance"):
                    # routines registered at run time are still there after another instance was constructed
                    n_ = ch.choice(usable, "can")
                    ops.append({"op": "stmt", "inst": ch.draw(len(insts), "caninst"), "code": ch.choice(SUB_CALLERS[n_], "cantext")})
                continue
            inst = ch.draw(len(insts), "inst")
            if k == "add_sub":
                s = ch.choice(SUB_CATALOGUE, "sub")
                for dep in s.get("needs", ()):
                    if dep not in subs and ch.chance(3, 4, "register-dependency"):
                        # the routine it calls is registered first - on any instance
                        d = next(x for x in SUB_CATALOGUE if x["name"] == dep)
                        ops.append(dict(d, op="add_sub", inst=ch.draw(len(insts), "depinst")))
                        subs.append(dep)
                callers = SUB_CALLERS.get(s["name"], [])
                if callers and s["name"] not in subs and ch.chance(1, 2, "call-before-registration"):
                    # a call compiled while the routine is still unknown (rejected), the registration, the call again
                    ops.append({"op": "stmt", "inst": ch.draw(len(insts), "cbinst"), "code": ch.choice(callers, "cb")})
                ops.append(dict(s, op="add_sub", inst=inst))
                if callers and ch.chance(1, 2, "call-after-registration"):      # (after vf_bad's failed registration the call must stay rejected)
                    subs_after = subs + ([s["name"]] if s["name"] not in subs else [])
                    ops.append({"op": ch.choice(["stmt", "stmt", "fresh"], "caentry"), "inst": ch.draw(len(insts), "cainst"),
                                "code": ch.choice(callers, "ca"), "fmt": insts[0]})
                if s["name"] not in ("vf_bad", "vf_bad2") and s["name"] not in subs and all(n in subs for n in s.get("needs", ())):
                    subs.append(s["name"])
                continue
            if k == "add_macro":
                m = ch.choice(MACRO_OVERRIDES, "macro")
                ops.append(dict(m, op="add_macro", inst=inst))
                # users of the macro on this and on the other instances
                for _ in range(ch.randint(1, 3, "nmusers")):
                    ops.append({"op": ch.choice(["stmt", "fresh"], "muentry"), "inst": ch.draw(len(insts), "muinst"),
                                "code": ch.choice(MACRO_USERS[m["name"]], "muser"), "fmt": ch.choice(FMTS, "mufmt")})
                continue
            if k == "shortcode":
                # two rounds of the batch route on one name whose behaviour changes in between
                n1 = ch.choice(self.names, "sc1")
                n2 = ch.choice(self.names, "sc2")
                if len(self.beh[n1]) == 1 and len(self.beh[n2]) == 1 and len(self.beh[n1][0]) + len(self.beh[n2][0]) < 400:
                    nm = "sc_" + n1
                    i2 = ch.draw(len(insts), "scinst2")
                    ops.append({"op": "shortcode", "inst": inst, "behaviors": {nm: self.beh[n1]}})
                    ops.append({"op": "compile_parsed", "inst": inst, "name": nm, "parts": self.beh[n1]})
                    ops.append({"op": "shortcode", "inst": i2, "behaviors": {nm: self.beh[n2]}})
                    ops.append({"op": "compile_parsed", "inst": i2, "name": nm, "parts": self.beh[n2]})
                continue
            if k == "deeptree":
                # a very deep (but legal) tree, compiled twice from the same tree object
                t = ch.choice(gen_beh.DEEP_TREES, "deeptree")
                for rep in range(2):
                    ops.append({"op": "insn", "inst": ch.draw(len(insts), "dtinst"), "name": "deep_%s_%d" % (stable_hash(t)[:6], rep),
                                "parts": [t], "via": "transform_insn"})
                continue
            if k == "again":
                # the very same input (the same parse tree object) once more, on any instance
                prev = [o for o in ops if o["op"] in ("insn", "fresh") and not o.get("fault")]
                if prev:
                    o = dict(ch.choice(prev[-4:], "again-what"))
                    o["inst"] = ch.draw(len(insts), "again-inst")
                    ops.append(o)
                continue
            if k == "deep":
                # legal but very deeply nested statements, on both sides of what the interpreter's recursion limit allows:
                # process-wide limits must be the same before and after failed compilations
                if self.failing_ok and ch.chance(2, 3, "deep-after-failure"):
                    t = ch.choice(self.failing_ok, "deepfail")
                    ops.append({"op": "insn", "inst": inst, "name": "bad_" + stable_hash(t)[:8], "parts": [t],
                                "via": ch.choice(["transform_insn", "compile_insn"], "deepvia")})
                ops.append({"op": "stmt", "inst": ch.draw(len(insts), "deepinst"), "code": ch.choice(DEEP, "deeptext")})
                continue
            if k == "twins":
                a, b = ch.choice(STMT_TWINS, "twin")
                if ch.chance(1, 2, "twin-order"):
                    a, b = b, a
                ops.append({"op": "stmt", "inst": inst, "code": a})
                ops.append({"op": "stmt", "inst": inst, "code": b})
                continue
            if k == "load":
                ops.append({"op": "load", "inst": inst})
                continue
            if k == "loaded_insn":
                op = {"op": "loaded_insn", "inst": inst, "name": ch.choice(self.names, "lname")}
                if ch.chance(p_fault, 10, "fault?"):
                    op["fault"] = self.gen_fault(ch, insts[inst], op["name"], self.beh[op["name"]], tuple(subs))
                ops.append(op)
                continue
            if k == "parse_err":
                ops.append({"op": "stmt", "inst": inst, "code": ch.choice(gen_beh.PARSE_ERRORS, "perr")})
                continue
            name, parts, origin = self.gen_input(ch, fail_w)
            if k == "stmt":
                # compile_c_stmt really parses (Earley, ~0.6 s for an average corpus line): keep those inputs short
                for _ in range(6):
                    if min(len(p) for p in parts) <= 140:
                        break
                    name, parts, origin = self.gen_input(ch, fail_w)
                parts = [p for p in parts if len(p) <= 140] or [min(parts, key=len)]
                part = ch.choice(parts, "spart")
                op = {"op": "stmt", "inst": inst, "code": part}
                rname, rparts, rfmt = "stmt", [part], insts[inst]
            elif k == "xform2":
                same = [(a, b) for a in range(len(insts)) for b in range(len(insts)) if a != b and insts[a] == insts[b]]
                if not same:
                    continue
                i1, i2 = ch.choice(same, "x2insts")
                n2, parts2, _ = self.gen_input(ch, 0)
                codes = [ch.choice(parts, "x2a"), ch.choice(parts2, "x2b")]
                ok = [c_ for c_ in codes if self.ref(insts[i1], "stmt", c_, tuple(subs))["status"] == "ok"]
                if len(ok) < 2:
                    continue
                ops.append({"op": "xform2", "inst": i1, "inst2": i2, "codes": codes})
                continue
            elif k == "fresh2":
                rfmt = ch.choice(FMTS, "ffmt")
                n2, parts2, _ = self.gen_input(ch, 0)
                codes = [ch.choice(parts, "f2a"), ch.choice(parts2, "f2b")]
                ok = [c_ for c_ in codes if self.ref(rfmt, "stmt", c_, tuple(subs))["status"] == "ok"]
                if len(ok) < 2:
                    continue        # a raising first transform would leave no second one to look at
                op = {"op": "fresh2", "inst": inst, "codes": codes, "fmt": rfmt}
                ops.append(op)
                continue
            elif k == "fresh":
                part = ch.choice(parts, "fpart")
                rfmt = ch.choice(FMTS, "ffmt")
                op = {"op": "fresh", "inst": inst, "code": part, "fmt": rfmt}
                rname, rparts = "stmt", [part]
            else:
                vname = self.name_variant(ch, name, used_names)
                used_names.add(vname)
                op = {"op": "insn", "inst": inst, "name": vname, "parts": parts,
                      "via": ch.choice(["transform_insn", "transform_insn", "compile_insn"], "via")}
                rname, rparts, rfmt = vname, parts, insts[inst]
            if ch.chance(p_fault, 10, "fault?"):
                op["fault"] = self.gen_fault(ch, rfmt, rname, rparts, tuple(subs))
            if ch.chance(1, 8, "thread"):
                op["thread"] = True      # the call runs on another (joined) thread of the same process
            ops.append(op)
        return {"fmt0": fmt0, "ops": ops}

    def boundary_history(self, ch: Chooser):
        """Directed history: the never-reset temporary counter is placed right below a digit roll-over (9/10, 99/100,
        999/1000) before behaviours with several temporaries are compiled - wherever generated names are sorted,
        compared as strings or cut to a width, these are the values that matter."""
        fmt0 = ch.choice(FMTS, "fmt0")
        target = ch.weighted([(9, 3), (99, 3), (999, 3), (256, 1), (1024, 1), (2048, 1), (4096, 1), (8192 if self.tier == "thorough" else 512, 1)],
                             "boundary") - ch.draw(3, "below")
        ops = [{"op": "insn", "inst": 0, "name": "warm", "parts": [WARMUP_BIG], "via": "transform_insn"}] * (target // 8)
        ops += [{"op": "insn", "inst": 0, "name": "warm", "parts": [WARMUP_ONE], "via": "transform_insn"}] * (target % 8)
        # (the counter also crosses powers of two: limits, table sizes, widths of generated names)
        for _ in range(ch.randint(2, 6, "nmulti")):
            t = ch.choice(MULTI_HYBRID, "multi-hybrid")
            kind = ch.choice(["stmt", "insn", "fresh"], "bentry")
            if kind == "stmt":
                ops.append({"op": "stmt", "inst": 0, "code": t})
            elif kind == "insn":
                ops.append({"op": "insn", "inst": 0, "name": "mh_" + stable_hash(t)[:6], "parts": [t], "via": "transform_insn"})
            else:
                ops.append({"op": "fresh", "inst": 0, "code": t, "fmt": fmt0})
        return {"fmt0": fmt0, "ops": ops}

    # ------------------------------------------------------------------ oracle
    def judge(self, workload, obs, out, log: EventLog):
        ops = workload["ops"]
        insts = [workload["fmt0"]]
        subs: list[str] = []
        inst_macros: dict[int, list] = {}
        failure_seen = False
        seen_inputs: dict = {}
        compared_ops = 0
        nontrivial_marks = set()
        V = out.violations

        def viol(step, cls, sigkey, **detail):
            V.append(Violation(self.prop, "fresh-first", cls, sigkey, detail, step))

        for step, (op, o) in enumerate(zip(ops, obs)):
            kind = op["op"]
            out.count("op_" + kind)
            if kind == "new_compiler":
                if op.get("io_fault"):
                    out.count("io_fault_" + op["io_fault"]["kind"])
                    out.count("io_fault_fired" if o.get("fault_fired") else "io_fault_not_reached")
                    if o["status"] != "ok":
                        out.count("constructor_failed_on_io_fault")
                        failure_seen = True
                        log.add("new-io-fault", op["fmt"], o["status"], o.get("exc"))
                        continue
                if o["status"] == "ok":
                    insts.append(op["fmt"])
                    out.count("instances_created")
                else:
                    viol(step, "new-compiler-failed", o.get("exc", ""), msg=o.get("msg"))
                log.add("new", op["fmt"], o["status"])
                continue
            if kind == "add_sub":
                if o["status"] == "ok" and op["name"] not in subs:
                    subs.append(op["name"])
                if o["status"] != "ok":
                    failure_seen = True
                    out.count("natural_failure_" + o.get("exc", "?"))
                    # a registration that a fresh compiler accepts (after the same earlier registrations) must be accepted
                    if op["name"] not in subs and self.ref_sub(workload["fmt0"], op["name"], tuple(subs)) is not None:
                        viol(step, "registration-rejected", o.get("exc", ""), routine=op["name"], msg=o.get("msg"), registered=list(subs))
                log.add("add_sub", op["name"], o["status"], stable_hash(o.get("def", ""))[:12])
                # a sub-routine definition is itself a compilation result: same text on every history
                if o["status"] == "ok":
                    r = self.ref_sub(workload["fmt0"], op["name"], tuple(x for x in subs if x != op["name"]))
                    if r is not None and norm.normalise(o["def"]) != r:
                        viol(step, "sub-def", op["name"], diff=norm.first_difference(norm.normalise(o["def"]), r))
                continue
            if kind == "add_macro":
                if o["status"] == "ok":
                    lst = inst_macros.setdefault(op.get("inst", 0) % len(insts), [])
                    if op["name"] not in lst:
                        lst.append(op["name"])
                log.add("add_macro", op["name"], o["status"])
                continue
            if kind == "shortcode":
                if o["status"] != "ok":
                    viol(step, "shortcode-failed", o.get("exc", ""), msg=o.get("msg"))
                log.add("shortcode", o["status"])
                continue
            if kind not in COMPILE_OPS:
                continue
            inst = op.get("inst", 0) % len(insts)
            fmt = op["fmt"] if kind in ("fresh", "fresh2") else insts[inst]
            name = op["name"] if kind in ("insn", "loaded_insn", "compile_parsed") else "stmt"
            if kind == "loaded_insn":
                parts = list(self.beh[op["name"]])
                got_parts = o.get("loaded_parts")
                if o["status"] == "ok" and got_parts != parts:
                    viol(step, "loader-parts", "", name=name, got=len(got_parts or []), want=len(parts))
                    continue
            elif kind in ("fresh2", "xform2"):
                parts = list(op["codes"])
            else:
                parts = op["parts"] if kind in ("insn", "compile_parsed") else [op["code"]]
            fault = op.get("fault")
            if fault:
                out.count("fault_armed")
            if fault and o.get("fault_fired"):
                out.count("fault_fired_" + fault["exc"])
                out.count("fault_fired_" + fault["when"])
                out.count("fault_fired_in_" + kind)
                out.count("fault_fired_site_" + fault.get("site", "callback"))
                failure_seen = True
                log.add("faulted", kind, fault["at"], fault["when"], fault["exc"], o["status"])
                nontrivial_marks.add("fault")
                continue
            part_insts = [inst, op["inst2"] % len(insts)] if kind == "xform2" else [inst] * len(parts)
            refs = [self.ref(fmt, name, p, tuple(subs), tuple(sorted(inst_macros.get(pi, ())))) for p, pi in zip(parts, part_insts)]
            exp_exc = next((r["exc"] for r in refs if r["status"] != "ok"), None)
            out.compared += 1
            compared_ops += 1
            if failure_seen:
                out.count("compared_after_failure")
                out.count("compared_after_failure_" + kind)
                nontrivial_marks.add("after-failure")
            if inst > 0:
                out.count("compared_on_later_instance")
                nontrivial_marks.add("multi-instance")
            ikey = (name, tuple(parts))
            if ikey in seen_inputs and seen_inputs[ikey] != (inst, kind):
                out.count("same_input_other_instance_or_entry")
            seen_inputs[ikey] = (inst, kind)
            if kind in ("insn", "loaded_insn") and len(parts) == 2:
                out.count("compound_compared")
                nontrivial_marks.add("compound")
            got_codes = [norm.normalise(p.get("code", ""), src) for p, src in zip(o.get("parts", []), parts)]
            log.add(kind, inst, fmt, name, o["status"], o.get("exc"), [stable_hash(c)[:10] for c in got_codes],
                    [sorted(p.get("meta", [])) for p in o.get("parts", [])])
            if exp_exc is not None:
                if o["status"] == "ok":
                    viol(step, "accepts-what-fresh-rejects", exp_exc, op=self.describe({"fmt0": "", "ops": [op]})["ops"][0])
                elif o["exc"] != exp_exc:
                    viol(step, "exception-type", f"{exp_exc}->{o['exc']}", msg=o.get("msg"))
                else:
                    out.count("natural_failure_" + exp_exc)
                failure_seen = True
                continue
            if o["status"] != "ok":
                viol(step, "rejects-what-fresh-accepts", o["exc"], msg=o.get("msg"), entry=kind,
                     op=self.describe({"fmt0": "", "ops": [op]})["ops"][0])
                failure_seen = True
                continue
            if len(o["parts"]) != len(parts):
                viol(step, "part-count", "", got=len(o["parts"]), want=len(parts))
                continue
            for j, (p, r, src) in enumerate(zip(o["parts"], refs, parts)):
                if got_codes[j] != r["norm"]:
                    viol(step, "code", kind, part=j, name=name, diff=norm.first_difference(got_codes[j], r["norm"]),
                         source=src[:200])
                    break
                if kind != "stmt":
                    gm, wm = set(p.get("meta", [])), set(r["meta"])
                    if gm != wm:
                        d = sorted(["+" + x.replace("HEX_IL_INSN_ATTR_", "") for x in gm - wm] +
                                   ["-" + x.replace("HEX_IL_INSN_ATTR_", "") for x in wm - gm])
                        viol(step, "meta", ",".join(d), part=j, name=name, got=sorted(gm), want=sorted(wm))
                        break
                if kind in ("insn", "loaded_insn", "compile_parsed"):
                    if bool(o["needs_hi"][j]) != bool(r["needs_hi"]) or bool(o["needs_pkt"][j]) != bool(r["needs_pkt"]):
                        viol(step, "needs-flags", "", part=j, name=name)
                        break
        out.count("ops", len(ops))
        wl_digest = stable_hash(workload)[:16]
        out.see("histories", wl_digest)
        out.see("op_kind_sequences", stable_hash([o["op"] for o in ops])[:16])
        if compared_ops >= 2 and nontrivial_marks:
            out.see("nontrivial", wl_digest)

    def ref_sub(self, fmt, name, before=()):
        s = next((s for s in SUB_CATALOGUE if s["name"] == name), None)
        if s is None:
            return None
        deps = tuple(n for n in before if n in s.get("needs", ()))
        key = ("subdef", fmt, name, deps)
        if key not in self.refs:
            pre = [dict(x, op="add_sub", inst=0) for x in SUB_CATALOGUE if x["name"] in deps]
            o = self.sim.execute(fmt, pre + [dict(s, op="add_sub", inst=0)])[-1]
            self.refs[key] = norm.normalise(o["def"]) if o["status"] == "ok" else None
        return self.refs[key]

    def finding_key(self, wl, v):
        return v.signature()

    def nontrivial_rule(self):
        return ("one case = a history of 2..%d API calls (compile_c_stmt, transform_insn, compile_insn, fresh RZILTransformer, "
                "add_sub_routine, new Compiler of either CodeFormat) over 1..3 instances in one process, inputs from the bundled "
                "corpus, a generated catalogue and naturally failing inputs, with exceptions injected at the k-th transformer "
                "callback; every non-faulted compile is compared with the same input compiled first on a fresh compiler. "
                "Distinct = distinct operation-list digest; non-trivial = >=2 compared compile operations and at least one of: "
                "a failure (natural or injected) before a compared operation, >=2 instances, a two-part compound compared "
                "part-wise against its parts compiled alone." % self.max_ops[self.tier])

    def evidence_extra(self, agg):
        c = agg.counters
        return {
            "fault_kinds_fired": {k[len("fault_fired_"):]: v for k, v in sorted(c.items()) if k.startswith("fault_fired_")},
            "natural_failures": {k[len("natural_failure_"):]: v for k, v in sorted(c.items()) if k.startswith("natural_failure_")},
            "components": {"real": ["rzilcompiler (all of it)", "lark", "git subprocess"], "stub": []},
            "distinct_histories": len(agg.distinct.get("histories", ())),
            "distinct_op_kind_sequences": len(agg.distinct.get("op_kind_sequences", ())),
            "logical_steps": c.get("ops", 0),
        }


ENGINE = EngineC14
