"""C13 - reported instruction attributes are exactly those of the instruction itself (engine H).

Same histories as C14, workload biased toward attribute-relevant constructs; the oracle is the
text-level attribute model (sim/attrmodel.py), which never looks at the compiler's parse tree.
"""
from __future__ import annotations

from c14 import EngineC14
from hist_common import COMPILE_OPS
from sim import attrmodel
from sim.core import Chooser, EventLog, Violation, stable_hash

P = "HEX_IL_INSN_ATTR_"


class EngineC13(EngineC14):
    prop = "C13"
    tiers = {"quick": dict(budget_s=65, max_runs=10**9, workers=16),
             "thorough": dict(budget_s=1500, max_runs=10**9, workers=16)}

    def worker_init(self, wid):
        super().worker_init(wid)
        # pools by expected attribute, so that orders which make leakage visible are frequent
        self.by_attr: dict[str, list] = {}
        for n in self.names:
            for j, p in enumerate(self.beh[n]):
                for a in attrmodel.attrs_of_text(p):
                    self.by_attr.setdefault(a, []).append((n, j))
        for t in self.catalogue_ok:
            for a in attrmodel.attrs_of_text(t):
                self.by_attr.setdefault(a, []).append((None, t))
        self.attr_keys = sorted(self.by_attr)

    def gen_input(self, ch: Chooser, want_fail_weight=2):
        if want_fail_weight and ch.chance(1, 12, "flag-then-fail"):
            # rejected right after an attribute flag was recorded (unsupported .new register class as first operand)
            pool = [t for t in self.failing_ok if "OsN" in t or "_NEW =" in t]
            if pool:
                t = ch.choice(pool, "ftf")
                return "bad_" + stable_hash(t)[:8], [t], "failing"
        if ch.chance(6, 10, "attr-biased"):
            a = ch.choice(self.attr_keys, "attr")
            n, j = ch.choice(self.by_attr[a], "attr-item")
            if n is None:
                return "gen_" + stable_hash(j)[:8], [j], "catalogue"
            if ch.chance(1, 2, "whole"):
                return n, list(self.beh[n]), "corpus"
            return n, [self.beh[n][j]], "part-alone"
        return super().gen_input(ch, want_fail_weight)

    def judge(self, workload, obs, out, log: EventLog):
        ops = workload["ops"]
        V = out.violations
        prev_sets = []
        compared_parts = 0
        nontrivial = False
        for step, (op, o) in enumerate(zip(ops, obs)):
            kind = op["op"]
            out.count("op_" + kind)
            fault = op.get("fault")
            if fault and o.get("fault_fired"):
                out.count("fault_fired_" + fault["exc"])
                log.add("faulted", kind, fault["at"], fault["when"], fault["exc"])
                continue
            if kind not in COMPILE_OPS:
                log.add(kind, o["status"])
                continue
            if o["status"] != "ok":
                out.count("natural_failure_" + o.get("exc", "?"))
                log.add(kind, "exc", o.get("exc"))
                continue
            if kind == "stmt":
                log.add("stmt", "ok")
                continue
            name = op["name"] if kind in ("insn", "loaded_insn", "compile_parsed") else None
            if kind == "loaded_insn":
                parts = o.get("loaded_parts") or []
            elif kind in ("fresh2", "xform2"):
                parts = list(op["codes"])
            else:
                parts = op["parts"] if kind in ("insn", "compile_parsed") else [op["code"]]
            if len(o["parts"]) != len(parts):
                V.append(Violation("C13", "text-model", "part-count", "", {"got": len(o["parts"]), "want": len(parts)}, step))
                continue
            for j, (p, src) in enumerate(zip(o["parts"], parts)):
                want = attrmodel.expected_attrs(name, src, self.noped)
                got_list = list(p.get("meta", []))
                got = set(got_list)
                out.compared += 1
                compared_parts += 1
                log.add(kind, op.get("inst", 0), name, j, sorted(got))
                for a in want:
                    out.count("expected_" + a[len(P):])
                if want != {P + "NONE"} or any(s != want for s in prev_sets):
                    nontrivial = True
                    out.see("nontrivial", stable_hash(workload, step, j)[:16])
                prev_sets.append(want)
                if len(got_list) != len(got):
                    out.count("duplicate_attribute_in_list")       # the statement speaks of the *set*: recorded, not judged
                if "meta_again" in p and set(p["meta_again"]) != got:
                    # reading the attributes is an observation, not an operation: a second read gives the same set
                    V.append(Violation("C13", "text-model", "second-read-differs", "",
                                       {"first": sorted(got), "second": sorted(p["meta_again"]), "source": src[:200]}, step))
                if got != want:
                    d = sorted(["+" + x.replace(P, "") for x in got - want] + ["-" + x.replace(P, "") for x in want - got])
                    V.append(Violation("C13", "text-model", "attrs", ",".join(d),
                                       {"name": name, "part": j, "got": sorted(got), "want": sorted(want), "source": src[:300],
                                        "entry": kind}, step))
        out.count("ops", len(ops))
        out.see("histories", stable_hash(workload)[:16])

    def post_batch(self, agg, base_seed):
        """The two constant cases of the statement: unimplemented -> INVALID."""
        self.worker_init(0)
        from rzilcompiler.Compiler import RZILInstruction
        bad = []
        for nm in ["dummy", "A2_add", "J2_jump", "x"]:
            r = RZILInstruction.get_unimplemented_rzil_instr(nm)
            if r.meta != [[P + "INVALID"]]:
                bad.append(nm)
        if bad:
            v = Violation("C13", "text-model", "unimplemented-not-invalid", "", {"names": bad})
            agg.violations.append({"index": 10**6, "seed": 0, "violation": v.to_json(),
                                   "workload": {"fmt0": "READ_STATEMENTS", "ops": [], "check_unimplemented": True}, "tape": []})
        return {"unimplemented_checked": 4}

    def execute(self, workload, tape, seed):
        out = super().execute(workload, tape, seed)
        if workload.get("check_unimplemented"):
            from rzilcompiler.Compiler import RZILInstruction
            r = RZILInstruction.get_unimplemented_rzil_instr("dummy")
            if r.meta != [[P + "INVALID"]]:
                out.violations.append(Violation("C13", "text-model", "unimplemented-not-invalid", "", {"meta": r.meta}))
        return out

    def nontrivial_rule(self):
        return ("one case = (history, compared part): histories as in C14 (1..3 compiler instances, fresh transformers, all entry "
                "points, natural and injected failures) with inputs biased toward attribute-relevant constructs; after every "
                "successful transform_insn/compile_insn/fresh-transformer compile the reported attribute list of each part is "
                "compared as a set with the text-level model. Distinct = distinct (history digest, op index, part index); "
                "non-trivial = the part's expected set is not {NONE} or an earlier part of the same history had a different expected set.")

    def assumptions(self):
        return super().assumptions() + [
            "oracle: sim/attrmodel.py, a ~40-line scanner over the behaviour *text*; validated against the compiler on a fresh "
            "instance for all compiling corpus parts and the generated catalogue (0 disagreements)"]


ENGINE = EngineC13
