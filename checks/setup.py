#!/venv/bin/python
"""MANIFEST.setup_cmd: verify the interpreter has what the checks need and build the parse-tree cache
(whole corpus, ~2 min on 16 cores).  Nothing is fetched."""
import os
import sys
import time

HERE = os.path.dirname(os.path.abspath(__file__))
sys.path.insert(0, os.path.dirname(HERE))


def main():
    t0 = time.time()
    import lark  # noqa: F401
    import tqdm  # noqa: F401
    from sim import core, corpus
    core.setup_repo_imports()
    import rzilcompiler.Parser  # noqa: F401
    quick = "--quick" in sys.argv
    if quick:
        print("setup: imports ok (cache build skipped)")
        return 0
    n, ok = corpus.build_full_cache(workers=os.cpu_count() or 4)
    # catalogue / generated workload texts of the engines (a few hundred short behaviours)
    sys.path.insert(0, HERE)
    extra = 0
    try:
        import c08
        import c14
        import c18
        for cls in (c14.EngineC14, c08.EngineC08):
            e = cls("quick")
            e._load()
            e.tc.get(e.extra_texts, workers=os.cpu_count() or 4)
            extra += len(e.extra_texts)
        e = c18.EngineP("quick")
        e._load()
        e.tc.get(e.short_texts, workers=os.cpu_count() or 4)
        extra += len(e.short_texts)
    except Exception as ex:  # noqa: BLE001 - the checks parse what is missing on their own
        print("setup: workload texts not pre-parsed:", repr(ex)[:200])
    print(f"setup: parse-tree cache holds {n} behaviour parts ({ok} parse) + {extra} workload texts in {time.time() - t0:.0f}s")
    return 0


if __name__ == "__main__":
    sys.exit(main())
