"""C17 - the grammar parses behaviours with C structure, deterministically (engine G).

Nodes are fresh interpreters whose PYTHONHASHSEED, construction route (Compiler.set_lark_parser /
Parser.parse_single / direct Lark), parser-reuse policy and parse history (order, repetitions,
failing parses in between) are chosen by the simulator.
  determinism clause: one outcome per text over all nodes and history positions
  structure clause:   texts are printed from random ASTs with only the parentheses C requires; the
                      lark tree must map back to the same AST
"""
from __future__ import annotations

import json
import os
import re
import subprocess
import sys
import tempfile

from common import EngineBase, Outcome
from sim import corpus, gen_c, trees
from sim.core import VERIF_DIR, Chooser, EventLog, HarnessError, Violation, repo_dir, stable_hash

ROUTES = ["compiler", "direct", "parse_single"]
BROKEN = ["{", "{ RdV = ; }", "{ RdV = RsV }", "{ RdV = (RsV; }", "{ RdV = RsV $ 1; }", "{ @ }", "{ if (PuV { RdV = RsV; } }",
          "{ RdV = RsV; } }"]
NODE = os.path.join(VERIF_DIR, "sim", "parse_node.py")
F10_RE = re.compile(r"(\+\+|--)\s*[-+]")


def print_case(ast, seed, paren_postfix, style=None):
    """AST -> text.  style None: whitespace from the seed; 'tight' / 'spaced': fixed."""
    ch = Chooser(seed=seed) if style is None else Chooser(tape=[])
    g = gen_c.CGen(ch)
    if style == "spaced":
        g.sp = lambda: " "
    elif style == "tight":
        g.sp = lambda: ""
    elif style == "plain":
        # every optional decoration off (all draws 1: no redundant parentheses), single blanks
        g.ch = ch = Chooser(tape=[1] * 20000)
        g.sp = lambda: " "
    g.paren_postfix = paren_postfix
    return "{ " + g.show_stmt(from_json(ast)) + " }"


def from_json(x):
    if isinstance(x, list):
        if x and isinstance(x[0], str) and (x[0] in gen_c._KINDS or x[0] in STMT_KINDS or x[0] in ATOM_KINDS):
            return tuple(from_json(y) for y in x)
        return [from_json(y) for y in x]
    return x


STMT_KINDS = {"expr", "decl", "decln", "declp", "if", "block", "for", "store", "jump", "empty", "return", "label"}
ATOM_KINDS = {"reg", "newreg", "explicit", "alias", "imm", "id", "num"}


TIGHT_HAZARDS = ["{ tmp = a ? R1:0; }", "{ tmp = PuV ? R1:0; }", "{ tmp = RsV ? P0:1; }", "{ x = x ? V2:1; }", "{ tmp = a ? R31:3 ; }",
                 "{ tmp = a ? C12:13; }", "{ tmp = (a ? R1:0); }", "{ RddV = R1:0; }", "{ R1:0; }", "{ tmp = a ? R1:0 : 2; }",
                 "{ if (a) R3:2; }", "{ tmp = a?P3:0; }",
                 # casts to pointer types, keyword and typedef-like spellings (both parsers of the project read the same grammar)
                 "{ tmp = *(int *) p; }", "{ x = (char *) a; }", "{ p = (void*) 0; }", "{ x = (uint8_t *) a; }", "{ x = (unsigned int *) a; }",
                 "{ tmp = *(size4u_t*) EA; }", "{ x = (cnt_t) - RsV; }", "{ x = (len_t) * p; }", "{ x = (foo_t *) a; }", "{ x = (long *) a + 1; }"]


# operator runs that can be split in several ways (whatever split the grammar settles on, every node agrees)
OPERATOR_RUNS = ["{ tmp = b---c; }", "{ tmp = b+++c; }", "{ tmp = b--- -c; }", "{ tmp = b+++ +c; }", "{ tmp = a---b---c; }", "{ tmp = a&&&b; }",
                 "{ tmp = a<<<b; }", "{ tmp = b- --c; }", "{ tmp = b-- -c; }", "{ tmp = a+++b---c; }"]


class EngineG(EngineBase):
    prop = "C17"
    tiers = {"quick": dict(budget_s=75, max_runs=10**9, workers=16),
             "thorough": dict(budget_s=1500, max_runs=10**9, workers=16)}
    per_run_timeout = 600.0
    shrink_budget = 120
    shrink_wall_s = 240.0

    def parent_init(self):
        self._load()

    def _load(self):
        self.tc = corpus.TreeCache()
        self.beh = corpus.load_behaviours()
        texts = sorted({p for parts in self.beh.values() for p in parts})
        self.corpus_texts = texts
        self.corpus_short = [t for t in texts if len(t) <= 160]
        self.pairs = gen_c.operator_pair_cases()

    def worker_init(self, wid):
        if not hasattr(self, "tc"):
            self._load()
        import lark
        self.lark = lark.Lark(self.tc.g, start="fbody", parser="earley")     # harness-owned, only for diagnosis
        self.tmpdir = tempfile.mkdtemp(prefix="c17-", dir=os.path.join(VERIF_DIR, ".work") if os.path.isdir(os.path.join(VERIF_DIR, ".work")) else None)

    def worker_fini(self, wid):
        try:
            for f in os.listdir(self.tmpdir):
                os.unlink(os.path.join(self.tmpdir, f))
            os.rmdir(self.tmpdir)
        except OSError:
            pass

    # ------------------------------------------------------------------ workload
    def generate(self, ch: Chooser, index):
        config = "A" if ch.chance(7, 10, "config") else "B"
        # (configuration A used to print every postfix ++/-- parenthesised to steer clear of finding F10; since the
        #  fix the label only survives in old replay files)
        paren_postfix = False
        texts = []
        # exhaustive operator-pair slice carried by this run
        n_pairs = 14
        base = (index * n_pairs) % len(self.pairs)
        for k in range(n_pairs):
            e = self.pairs[(base + k) % len(self.pairs)]
            ast = ("expr", ("assign", "=", ("atom", ("id", "tmp")), e))
            texts.append(self._gen_text(ch, ast, paren_postfix, "pair"))
        # blank-sensitive texts go first: the short histories of parse_single nodes always contain them
        hz = gen_c.blank_sensitive_cases() + gen_c.paren_ident_cases() + gen_c.postfix_additive_cases()
        for _ in range(3):
            e = ch.choice(hz, "hazard")
            ast = ("expr", ("assign", "=", ("atom", ("id", "tmp")), e))
            j = gen_c.to_jsonable(ast)
            texts.append({"kind": "gen", "ast": j, "pseed": 0, "pp": False, "text": print_case(j, 0, False, "spaced"), "hazard": True})
        if ch.chance(1, 2, "tight-hazard"):
            # the same shapes without blanks ('R1:0' is also the spelling of a register pair): whichever tree the grammar
            # assigns, it has to be the same on every node and after every history - in particular after a rejected text
            texts.append({"kind": "detonly", "text": ch.choice(TIGHT_HAZARDS, "tight"), "hazard": True})
            texts.append({"kind": "detonly", "text": ch.choice(OPERATOR_RUNS, "oprun"), "hazard": True})
            texts.append({"kind": "broken", "text": ch.choice(BROKEN, "broken-before-tight")})
        if ch.chance(1, 2, "stmt-hazard"):
            # statement-level shapes: a block (or an if/for body) directly followed by a statement that starts with an
            # operator which is both unary and binary; sizeof(T) followed by such an operator; a parenthesised comma
            # expression as the only argument
            j = gen_c.to_jsonable(ch.choice(gen_c.stmt_hazard_cases(), "stmt-hazard-case"))
            texts.append({"kind": "gen", "ast": j, "pseed": 0, "pp": False, "text": print_case(j, 0, False, "plain"), "hazard": True})
        if ch.chance(1, 2, "twins"):
            # two different ASTs whose texts differ only in whitespace: a parser (or cache) that ignores token
            # boundaries confuses them, and different nodes see them in different orders
            t1, t2 = ch.choice(gen_c.whitespace_twins(), "twin")
            for e in (t1, t2):
                ast = ("expr", ("assign", "=", ("atom", ("id", "x")), e))
                tw = self._gen_text(ch, ast, False, "gen")
                tw["hazard"] = True          # ambiguity-sensitive: also part of every parse_single history
                texts.append(tw)
        n_gen = ch.randint(3, 9, "n_gen")
        for _ in range(n_gen):
            g = gen_c.CGen(ch)
            if ch.chance(1, 2, "stmt?"):
                ast = g.stmt(ch.randint(1, 3, "sd"))
            else:
                ast = ("expr", ("assign", "=", ("atom", ("id", "tmp")), g.expr(ch.randint(1, 5, "ed"))))
            texts.append(self._gen_text(ch, ast, paren_postfix, "gen"))
        if self.tier == "thorough":
            # systematic slice: after len(corpus)/4 runs every bundled line has been parsed by 2..3 nodes
            for k in range(4):
                texts.append({"kind": "corpus", "text": self.corpus_texts[(index * 4 + k) % len(self.corpus_texts)]})
        pool = self.corpus_short if self.tier == "quick" or ch.chance(3, 4, "short") else self.corpus_texts
        for _ in range(ch.randint(0, 3, "n_corpus")):
            texts.append({"kind": "corpus", "text": ch.choice(pool, "corpus")})
        for _ in range(ch.randint(0, 2, "n_broken")):
            texts.append({"kind": "broken", "text": ch.choice(BROKEN, "broken")})
        nodes = []
        for j in range(ch.randint(2, 3, "n_nodes")):
            hs = ch.choice([0, 1, 2, 12345, None], "hs")
            if hs is None:
                hs = ch.draw(2**32, "hs32")
            route = ch.weighted([("compiler", 5), ("direct", 3), ("parse_single", 3)], "route")
            order = ch.shuffle(list(range(len(texts))), "order")
            if route == "parse_single":
                hazards = [i for i, t in enumerate(texts) if t.get("hazard")]
                order = hazards + [i for i in order if i not in hazards][:5]            # a new Lark per text: 0.2 s each
            else:
                # repetitions: the same text at two positions of one history
                for _ in range(ch.randint(0, 2, "reps")):
                    order.insert(ch.draw(len(order) + 1, "rep.pos"), ch.choice(order, "rep.what"))
            nodes.append({"hashseed": hs, "route": route, "reuse": route != "parse_single" and ch.chance(4, 5, "reuse"), "order": order})
        # every text must be seen by at least two nodes
        return {"config": config, "texts": texts, "nodes": nodes}

    def _gen_text(self, ch, ast, paren_postfix, kind):
        pseed = ch.draw(2**31, "print.seed")
        j = gen_c.to_jsonable(ast)
        return {"kind": kind, "ast": j, "pseed": pseed, "pp": paren_postfix, "text": print_case(j, pseed, paren_postfix)}

    def describe(self, wl):
        return {"config": wl.get("config"), "texts": [{"kind": t["kind"], "text": t["text"][:140]} for t in wl["texts"]],
                "nodes": wl["nodes"]}

    # ------------------------------------------------------------------ execution
    def run_node(self, node, texts, selftest_perturb=None):
        job = {"repo": repo_dir(), "route": node["route"], "reuse": node["reuse"],
               "texts": [texts[i]["text"] for i in node["order"]], "want_trees": True}
        if selftest_perturb is not None:
            job["selftest_perturb"] = selftest_perturb
        path = os.path.join(self.tmpdir, f"job-{os.getpid()}.json")
        with open(path, "w") as f:
            json.dump(job, f)
        env = dict(os.environ, PYTHONHASHSEED=str(node["hashseed"]))
        env.pop("PYTHONPATH", None)
        try:
            r = subprocess.run([sys.executable, NODE, path], env=env, stdout=subprocess.PIPE, stderr=subprocess.PIPE, timeout=500)
        except subprocess.TimeoutExpired:
            raise HarnessError("parse node timed out")
        if r.returncode != 0:
            raise HarnessError(f"parse node failed rc={r.returncode}: {r.stderr.decode()[-800:]}")
        return json.loads(r.stdout.decode())["results"]

    def execute(self, workload, tape, seed) -> Outcome:
        out = Outcome()
        log = EventLog()
        texts, nodes = workload["texts"], workload["nodes"]
        outcomes: dict[int, list] = {i: [] for i in range(len(texts))}
        treeof: dict[int, object] = {}
        for nj, node in enumerate(nodes):
            order = [i for i in node["order"] if i < len(texts)]
            if not order:
                continue
            node = dict(node, order=order)
            res = self.run_node(node, texts, workload.get("selftest_perturb") if nj == 0 else None)
            out.count("node_runs")
            out.count("route_" + node["route"])
            out.count("reuse_" + str(node["reuse"]))
            out.count("parses", len(order))
            out.see("hashseeds", str(node["hashseed"]))
            prefix = []
            for pos, (i, r) in enumerate(zip(order, res)):
                o = ("ok", r["d"]) if r["s"] == "ok" else ("exc", r["e"])
                outcomes[i].append((o, nj, pos))
                if r["s"] == "ok" and i not in treeof:
                    treeof[i] = r["tree"]
                log.add("parse", nj, node["route"], node["reuse"], node["hashseed"], pos, i, list(o))
                if outcomes[i][:-1]:
                    out.see("nontrivial", stable_hash(texts[i]["text"], node["hashseed"], node["route"], node["reuse"], prefix)[:16])
                prefix.append(i)
                if r["s"] != "ok":
                    out.count("failed_parses_in_history")
        V = out.violations
        for i, t in enumerate(texts):
            obs = outcomes[i]
            if not obs:
                continue
            out.compared += 1
            out.count("text_" + t["kind"])
            kinds = {o for o, _, _ in obs}
            if len(kinds) > 1:
                detail = {"text": t["text"][:300], "outcomes": [[list(o), nodes[nj]["route"], nodes[nj]["reuse"], nodes[nj]["hashseed"], pos]
                                                                  for o, nj, pos in obs][:6]}
                routes = {nodes[nj]["route"] for _, nj, _ in obs}
                V.append(Violation("C17", "cross-node", "nondeterministic", "routes" if len(routes) > 1 else "same-route", detail))
                continue
            o = obs[0][0]
            if t["kind"] == "corpus":
                c = self.tc.data.get(t["text"])
                if c is not None:
                    want = ("ok", trees.digest(c[1])) if c[0] == "ok" else ("exc", c[1])
                    out.count("corpus_vs_cache")
                    if want != o:
                        V.append(Violation("C17", "cross-node", "differs-from-cache", "", {"text": t["text"][:300], "node": list(o), "cache": list(want)}))
            elif t["kind"] == "detonly":
                out.count("determinism_only_texts")
            elif t["kind"] == "broken":
                if o[0] == "ok":
                    V.append(Violation("C17", "structure", "accepts-broken", "", {"text": t["text"]}))
            else:
                want = gen_c.to_jsonable(gen_c.strip_empty(gen_c.norm_stmt(from_json(t["ast"]))))
                if o[0] != "ok":
                    V.append(Violation("C17", "structure", "rejects-valid", self.classify(t, None, want), {"text": t["text"][:400], "exception": o[1]}))
                    continue
                try:
                    got = gen_c.to_jsonable(gen_c.conv_body(treeof[i]))
                except gen_c.ConvError as e:
                    V.append(Violation("C17", "structure", "unmappable-tree", self.classify(t, None, want), {"text": t["text"][:400], "error": str(e)[:200]}))
                    continue
                if got != want:
                    V.append(Violation("C17", "structure", "wrong-tree", self.classify(t, got, want),
                                       {"text": t["text"][:400], "want": json.dumps(want)[:600], "got": json.dumps(got)[:600]}))
        out.count("texts", len(texts))
        out.see("texts", stable_hash([t["text"] for t in texts])[:16])
        out.digest = log.digest()
        out.tape = []
        return out

    def classify(self, t, got, want):
        """Input class of a structure mismatch (used as signature key)."""
        text = t["text"]
        if F10_RE.search(text) and t.get("ast") is not None:
            # active test: the same AST printed with every postfix ++/-- parenthesised
            alt = print_case(t["ast"], t.get("pseed", 0), True)
            try:
                g2 = gen_c.to_jsonable(gen_c.conv_body(trees.canon(self.lark.parse(alt))))
            except Exception:  # noqa: BLE001
                g2 = None
            if g2 == want:
                return "postfix-incdec-before-additive"
        return "general"

    # ------------------------------------------------------------------ shrinking
    def shrink_items(self, wl):
        return list(range(len(wl["texts"])))

    def with_items(self, wl, items):
        remap = {old: new for new, old in enumerate(items)}
        nodes = [dict(n, order=[remap[i] for i in n["order"] if i in remap]) for n in wl["nodes"]]
        nodes = [n for n in nodes if n["order"]]
        out = dict(wl, texts=[wl["texts"][i] for i in items], nodes=nodes)
        return out

    def simplify(self, wl):
        if len(wl["nodes"]) > 1:
            for j in range(len(wl["nodes"])):
                yield dict(wl, nodes=[wl["nodes"][j]])
        for n_i, n in enumerate(wl["nodes"]):
            if n["route"] != "direct":
                yield dict(wl, nodes=wl["nodes"][:n_i] + [dict(n, route="direct", reuse=True)] + wl["nodes"][n_i + 1:])
            if n["hashseed"] != 0:
                yield dict(wl, nodes=wl["nodes"][:n_i] + [dict(n, hashseed=0)] + wl["nodes"][n_i + 1:])
            if len(n["order"]) > len(set(n["order"])):
                yield dict(wl, nodes=wl["nodes"][:n_i] + [dict(n, order=sorted(set(n["order"])))] + wl["nodes"][n_i + 1:])
        for i, t in enumerate(wl["texts"]):
            if t.get("ast") is None:
                continue
            for small in shrink_ast(from_json(t["ast"])):
                j = gen_c.to_jsonable(small)
                for style in ("spaced", "tight"):
                    try:
                        text = print_case(j, 0, t.get("pp", False), style)
                    except Exception:  # noqa: BLE001
                        continue
                    nt = dict(t, ast=j, text=text, pseed=0)
                    yield dict(wl, texts=wl["texts"][:i] + [nt] + wl["texts"][i + 1:])

    def finding_key(self, wl, v):
        return v.signature()

    # ------------------------------------------------------------------ evidence
    def nontrivial_rule(self):
        return ("one case = a group of 2..3 fresh interpreter processes (PYTHONHASHSEED in {0,1,2,12345,random 32 bit}) that each "
                "parse a permuted history (repetitions, failing texts in between) of 12..25 texts through Compiler.set_lark_parser, "
                "Parser.parse_single or a direct Lark, with one parser object for the history or a new one per text. Texts: an "
                "8-case slice of the exhaustive adjacent-precedence operator-pair list, random expressions (depth<=5) and "
                "statements (depth<=3) printed with minimal parentheses and random whitespace, corpus lines, broken texts. "
                "Distinct non-trivial = distinct (text, hash seed, route, reuse policy, history prefix) observations beyond the "
                "first observation of each text (the first one compares with nothing).")

    def assumptions(self):
        return ["real: interpreter processes, lark, the working tree's grammar, Compiler.set_lark_parser and Parser.parse_single",
                "stub: none; the structure oracle is the generator's AST + C's precedence table (sim/gen_c.py)",
                "zero-argument calls, explicit register numbers containing digits 4-9 and alias names with underscores are not "
                "generated (outside what the statement lists / the dialect's token definitions)",
                "corpus texts are additionally compared with the parse-tree cache written by another process"]

    def evidence_extra(self, agg):
        c = agg.counters
        return {"node_runs": c.get("node_runs", 0), "parses": c.get("parses", 0),
                "hash_seeds_used": len(agg.distinct.get("hashseeds", ())),
                "routes": {k[6:]: v for k, v in c.items() if k.startswith("route_")},
                "reuse_policy": {k[6:]: v for k, v in c.items() if k.startswith("reuse_")},
                "text_kinds": {k[5:]: v for k, v in c.items() if k.startswith("text_")},
                "operator_pair_cases_total": len(self.pairs) if hasattr(self, "pairs") else None,
                "fault_kinds_fired": {"failing parse inside a history": c.get("failed_parses_in_history", 0)},
                "components": {"real": ["python interpreter per node", "lark", "grammar.lark", "Compiler.set_lark_parser", "parse_single"], "stub": []},
                "logical_steps": c.get("parses", 0)}

    def post_batch(self, agg, base_seed):
        """Self-test of the cross-node comparison: an artificial node that perturbs one tree must be flagged."""
        self.worker_init(0)
        wl = {"config": "A", "texts": [{"kind": "corpus", "text": "{ RdV = RsV; }"}, {"kind": "corpus", "text": "{ RdV = RtV; }"}],
              "nodes": [{"hashseed": 0, "route": "direct", "reuse": True, "order": [0, 1]},
                        {"hashseed": 1, "route": "direct", "reuse": True, "order": [1, 0]}], "selftest_perturb": 0}
        out = self.execute(wl, None, 0)
        ok = any(v.cls == "nondeterministic" for v in out.violations)
        self.worker_fini(0)
        if not ok:
            raise HarnessError("cross-node comparison self-test failed: a perturbed tree was not flagged")
        return {"cross_node_selftest": "perturbed tree flagged"}


def shrink_ast(s):
    """Smaller ASTs: hoist sub-statements / sub-expressions."""
    k = s[0]
    if k == "block":
        for x in s[1]:
            yield x
        if len(s[1]) > 2:
            for i in range(len(s[1])):
                yield ("block", s[1][:i] + s[1][i + 1:])
        for i, x in enumerate(s[1]):
            for y in shrink_ast(x):
                yield ("block", s[1][:i] + [y] + s[1][i + 1:])
    elif k == "if":
        yield s[2]
        if s[3] is not None:
            yield s[3]
            yield ("if", s[1], s[2], None)
        for y in shrink_expr(s[1]):
            yield ("if", y, s[2], s[3])
        for y in shrink_ast(s[2]):
            yield ("if", s[1], y, s[3])
        if s[3] is not None:
            for y in shrink_ast(s[3]):
                yield ("if", s[1], s[2], y)
    elif k == "for":
        yield s[4]
        for y in shrink_ast(s[4]):
            yield ("for", s[1], s[2], s[3], y)
        for y in shrink_expr(s[2]):
            yield ("for", s[1], y, s[3], s[4])
    elif k == "label":
        yield s[2]
        for y in shrink_ast(s[2]):
            yield ("label", s[1], y)
    elif k == "expr":
        for y in shrink_expr(s[1]):
            yield ("expr", y)
    elif k == "decl" and s[3] is not None:
        for y in shrink_expr(s[3]):
            yield ("decl", s[1], s[2], y)
    elif k == "store":
        for y in shrink_expr(s[3]):
            yield ("store", s[1], s[2], y, s[4])
        for y in shrink_expr(s[4]):
            yield ("store", s[1], s[2], s[3], y)
    elif k in ("jump", "return"):
        for y in shrink_expr(s[1]):
            yield (k, y)


A0 = ("atom", ("id", "a"))


def shrink_expr(e):
    k = e[0]
    if k == "atom":
        if e != A0 and e[1][0] not in ("id",):
            yield A0
        return
    if k == "assign":
        # keep it an assignment at statement level
        if e[3][0] == "assign":
            yield e[3]
        for y in shrink_expr(e[3]):
            yield ("assign", e[1], e[2], y)
        return
    kids = []
    if k == "bin":
        kids = [(2, e[2]), (3, e[3])]
    elif k in ("un", "cast"):
        kids = [(2, e[2])]
    elif k == "cond":
        kids = [(1, e[1]), (2, e[2]), (3, e[3])]
    elif k == "post":
        kids = []
    elif k in ("call", "macro"):
        for a in e[2]:
            yield a
        for i, a in enumerate(e[2]):
            for y in shrink_expr(a):
                yield (k, e[1], e[2][:i] + [y] + e[2][i + 1:])
        return
    elif k == "load":
        kids = [(3, e[3])]
    elif k == "comma":
        kids = [(1, e[1]), (2, e[2])]
    elif k == "sizeoft":
        yield A0
        return
    elif k == "stmtexpr":
        yield e[2]
        if e[1]:
            yield ("stmtexpr", [], e[2])
        for y in shrink_expr(e[2]):
            yield ("stmtexpr", e[1], y)
        return
    for _, c in kids:
        yield c
    for idx, c in kids:
        for y in shrink_expr(c):
            yield e[:idx] + (y,) + e[idx + 1:]


ENGINE = EngineG
