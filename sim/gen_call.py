"""Workload generator for C08: sub-routines and call sites in the mini-AST of sim/cref.py.

Configuration A ("collision-free"): callee locals carry the routine's name, caller variables are
disjoint from them, no conversion matches known finding F5a (signed -> wider unsigned, as argument or
as return conversion).  Any violation found
in configuration A is new.
Configuration B ("anything goes"): names come from one small pool and every (argument, parameter,
return) type triple is allowed.
"""
from __future__ import annotations

from . import cref
from .core import Chooser

ALL_T = [("s", 8), ("u", 8), ("s", 16), ("u", 16), ("s", 32), ("u", 32), ("s", 64), ("u", 64)]
WIDE_T = [("s", 32), ("u", 32), ("s", 64), ("u", 64)]
POOL_NAMES = ["a", "b", "x", "t", "out", "mask", "n", "val", "arg", "tmp", "res"]
BOUNDARY = [0, 1, 2, 0x7F, 0x80, 0xFF, 0x7FFF, 0x8000, 0xFFFF, 0x7FFFFFFF, 0x80000000, 0xFFFFFFFF,
            0x7FFFFFFFFFFFFFFF, 0x8000000000000000, 0xFFFFFFFFFFFFFFFF, 0x123456789ABCDEF0, 0xFFFFFFFF00000000, 0x00000000FFFFFF80]


def f5a(s, t):
    """signed -> wider unsigned"""
    return s[0] == "s" and t[0] == "u" and t[1] > s[1]


def f5b(e, r):
    """returned expression -> declared return type: after the F5b fix only the F5a pattern still deviates"""
    return f5a(e, r)


class CallGen:
    def __init__(self, ch: Chooser, config: str, uid: str):
        self.ch = ch
        self.cfg = config
        self.uid = uid
        self.funcs: dict[str, dict] = {}
        self.order: list[str] = []
        self.n = 0

    # ------------------------------------------------------------ types
    def pick(self, pool, ok, label):
        cands = [t for t in pool if ok(t)]
        return self.ch.choice(cands, label) if cands else None

    def conv_ok(self, s, t):
        return not f5a(s, t)

    # ------------------------------------------------------------ callees
    def local_name(self, fname, k):
        if self.cfg == "A":
            return f"{fname}_l{k}"
        return self.ch.choice(POOL_NAMES, "lname") + ("" if self.ch.chance(2, 3, "lsame") else str(k))

    def gen_function(self):
        ch = self.ch
        self.n += 1
        # registered names are case sensitive C identifiers
        name = self.ch.choice(["vf", "vF", "satU", "lowBits"], "fname") + f"{self.uid}_{self.n}"
        builtin_like = None
        if ch.chance(1, 10, "builtin-name"):
            # a routine registered under a name the plugin also knows as a macro / helper: the registry comes first
            builtin_like = ch.choice(["get_npc", "STORE_SLOT_CANCELLED", "WRITE_PRED", "WRITE_REG"], "builtin")
        kind = ch.weighted([("ret_param", 4), ("ret_cast", 3), ("ret_bin", 3), ("local", 3), ("branch", 3), ("postinc", 4),
                            ("nested", 7 if self.value_funcs() else 0), ("loop", 2), ("void_write", 2), ("pc_read", 1), ("ext_write_ret", 3),
                            ("ret_const", 2), ("mixed_sign", 5)], "fkind")
        A = self.cfg == "A"
        if kind == "ret_param":
            P = ch.choice(ALL_T, "P")
            R = self.pick(ALL_T, lambda r: not (A and f5b(P, r)), "R")
            body = [("return", ("var", "p"))]
            params = [(P, "p")]
        elif kind == "ret_const":
            # a constant expression of a 32 bit type returned through a (possibly wider) return type
            P = ch.choice(ALL_T, "P")
            E, expr = ch.choice([(("u", 32), ("not", ("lit", 0, ("u", 32)))), (("u", 32), ("not", ("lit", 0xFF, ("u", 32)))),
                                 (("u", 32), ("lit", 0xFFFFFFFF, ("u", 32))), (("s", 32), ("neg", ("lit", 1, ("s", 32)))),
                                 (("u", 32), ("bin", "-", ("lit", 0, ("u", 32)), ("lit", 1, ("u", 32)))),
                                 (("s", 32), ("not", ("lit", 0, ("s", 32))))], "constexpr")
            R = self.pick(ALL_T, lambda r: not (A and f5b(E, r)), "R")
            body = [("return", expr)]
            params = [(P, "p")]
        elif kind == "mixed_sign":
            # an unsigned and a signed parameter of one width
            W = ch.choice([32, 64], "W")
            P = ("u", W)
            params = [(("u", W), "p"), (("s", W), "q")]
            if ch.chance(1, 2, "mixed-order"):
                params.reverse()
            R = self.pick(ALL_T, lambda r: not (A and f5b(("u", W), r)), "R")
            body = [("return", ("bin", ch.choice(["^", "+", "-"], "op"), ("var", "p"), ("var", "q")))]
        elif kind == "ret_cast":
            P = ch.choice(ALL_T, "P")
            T = ch.choice(ALL_T, "T")          # explicit casts inside the body never widen signed->unsigned
            if f5a(P, T):
                T = P
            R = self.pick(ALL_T, lambda r: not (A and f5b(T, r)), "R")
            body = [("return", ("cast", T, ("var", "p")))]
            params = [(P, "p")]
        elif kind == "ret_bin":
            P = ch.choice(WIDE_T, "P")
            R = self.pick(ALL_T, lambda r: not (A and f5b(P, r)), "R")
            body = [("return", ("bin", ch.choice(["+", "-", "^", "&", "|"], "op"), ("var", "p"), ("var", "q")))]
            params = [(P, "p"), (P, "q")]
        elif kind == "local":
            P = ch.choice(ALL_T, "P")
            T = self.pick(ALL_T, lambda t: not f5a(P, t), "T")
            R = self.pick(ALL_T, lambda r: not (A and f5b(T, r)), "R")
            l1 = self.local_name(name, 1)
            body = [("decl", T, l1, ("var", "p")), ("return", ("var", l1))]
            params = [(P, "p")]
        elif kind == "branch":
            P = ch.choice(WIDE_T, "P")
            R = self.pick(ALL_T, lambda r: not (A and f5b(P, r)), "R")
            l1 = self.local_name(name, 1)
            body = [("decl", P, l1, ("lit", 0, P)),
                    ("if", ("cmp", ch.choice(["<", ">", "==", "!=", "<=", ">="], "cmp"), ("var", "p"), ("var", "q")),
                     [("assign", l1, ("var", "p"))], [("assign", l1, ("bin", "-", ("var", "q"), ("lit", 1, P)))]),
                    ("return", ("var", l1))]
            params = [(P, "p"), (P, "q")]
        elif kind == "void_write":
            # no return value: the result leaves through a by-reference register operand (bundle and RdV are passed through)
            P = ch.choice(WIDE_T[:2], "P")
            R = None
            body = [("regassign", "RdV", ("bin", ch.choice(["+", "^", "-"], "vop"), ("var", "v"), ("lit", ch.choice([1, 3, 16], "vlit"), P)), ("s", 32))]
            params = self.shuffled([(("ext", "HexInsnPktBundle *"), "bundle"), (("ext", "const HexOp *"), "RdV"), (P, "v")])
        elif kind == "ext_write_ret":
            P = ch.choice(WIDE_T[:2], "P")
            R = P
            body = [("regassign", "RdV", ("bin", "+", ("var", "v"), ("lit", 2, P)), ("s", 32)), ("return", ("var", "v"))]
            params = self.shuffled([(("ext", "HexInsnPktBundle *"), "bundle"), (("ext", "const HexOp *"), "RdV"), (P, "v")])
        elif kind == "pc_read":
            P = ("u", 32)
            R = self.pick(ALL_T, lambda r: not (A and f5b(P, r)), "R")
            body = [("return", ("bin", "+", ("var", "p"), ("reg", "HEX_REG_ALIAS_PC", ("u", 32))))]
            params = [(P, "p")]
        elif kind == "loop":
            P = ch.choice(WIDE_T, "P")
            R = self.pick(ALL_T, lambda r: not (A and f5b(P, r)), "R")
            l1 = self.local_name(name, 1)
            # the dialect's iterator variables are instruction-wide locals like any other: in configuration A the
            # callee never uses the one a caller's own loop uses ("i")
            it = ch.choice(["j", "k"] if A else ["i", "j", "k"], "it")
            step = ch.choice([("bin", "+", ("var", l1), ("var", "p")), ("bin", "^", ("shift", "<<", ("var", l1), 1), ("var", "p"))], "lstep")
            body = [("decl", P, l1, ("lit", 0, P)), ("for", it, ch.randint(0, 4, "trip"), [("assign", l1, step)]), ("return", ("var", l1))]
            params = [(P, "p")]
        elif kind == "postinc":
            P = ch.choice(ALL_T, "P")
            T = self.pick(WIDE_T, lambda t: not f5a(P, t), "T")
            R = self.pick(ALL_T, lambda r: not (A and f5b(T, r)), "R")
            l1, l2 = self.local_name(name, 1), self.local_name(name, 2)
            if l2 == l1:
                l2 = l1 + "2"
            form = ch.draw(3, "piform")
            if form == 0:
                # (a bare `x++;` statement at the top level of a body is hoisted in front of the initialisation by the
                #  compiler - statement order is C05/C06, not this property - so the increment sits inside a block)
                body = [("decl", T, l1, ("var", "p")),
                        ("if", ("cmp", "!=", ("var", l1), ("lit", 0, T)), [("expr", ("postinc", l1, 1))], []),
                        ("return", ("var", l1))]
            elif form == 1:
                body = [("decl", T, l1, ("var", "p")), ("decl", T, l2, ("postinc", l1, 1)),
                        ("return", ("bin", "^", ("var", l1), ("shift", "<<", ("var", l2), 1)))]
            else:
                body = [("decl", T, l1, ("var", "p")), ("decl", T, l2, ("bin", "+", ("postinc", l1, -1), ("postinc", l1, -1))),
                        ("return", ("bin", "-", ("var", l2), ("var", l1)))]
            params = [(P, "p")]
        else:  # nested
            vfs = self.value_funcs()
            with_temps = [n for n in vfs if self.funcs[n]["kind"] in ("postinc", "loop", "nested")]
            # prefer callees that have temporaries of their own: the outer routine keeps a call result live across them
            g = self.funcs[ch.choice(with_temps if with_temps and ch.chance(2, 3, "temps-callee") else vfs, "callee")]
            gP = [pt for pt, _ in g["params"]]
            P = self.pick(ALL_T, lambda p: all(not (A and f5a(p, gp)) for gp in gP), "P") or gP[0]
            Rg = g["ret"]
            args = [("var", "p")] * len(gP)
            form = ch.draw(3, "nform")
            l1 = self.local_name(name, 1)
            if form == 0:
                E = Rg
                body = [("return", ("call", g["name"], args))]
            elif form == 1:
                E = Rg
                Tl = cref.promote(Rg)
                body = [("decl", Tl, l1, ("call", g["name"], args)),
                        ("if", ("cmp", "!=", ("var", l1), ("lit", 0, Tl)), [("expr", ("postinc", l1, 1))], []),
                        ("return", ("var", l1))]
                E = Tl
            else:
                # two calls of the callee in one expression of the callee
                if Rg[1] >= 32:
                    E = Rg
                    body = [("return", ("bin", "^", ("call", g["name"], args), ("call", g["name"], args)))]
                else:
                    E = Rg
                    body = [("return", ("call", g["name"], args))]
            R = self.pick(ALL_T, lambda r: not (A and f5b(cref.promote(E) if form == 2 and Rg[1] >= 32 else E, r)), "R")
            params = [(P, "p")]
        if builtin_like and builtin_like not in self.funcs and R is not None and all(pt[0] != "ext" for pt, _ in params) \
                and kind not in ("local", "branch", "loop", "postinc", "nested"):
            name = builtin_like
        f = {"name": name, "ret": R, "params": params, "body": body, "kind": kind,
             "const": [pt[0] != "ext" and ch.chance(1, 4, "const") for pt, _ in params]}
        self.funcs[name] = f
        self.order.append(name)
        return f

    def clone_with_other_return_type(self, f):
        """The same parameters and the same body text under another name and with another return type."""
        R = f["ret"]
        if R is None:
            return None
        cands = [t for t in ALL_T if t != R and (t[0] == "s" or (R[0] == "u" and t[1] <= R[1]) or self.cfg != "A")]
        self.n += 1
        name = self.ch.choice(["vf", "vF", "satU", "lowBits"], "fname") + f"{self.uid}_{self.n}"
        g = dict(f, name=name, ret=self.ch.choice(cands, "cloneR"))
        if f["kind"] in ("local", "branch", "loop", "postinc", "nested") and self.cfg == "A":
            return None         # (locals carry the routine's name in configuration A: the body text would differ)
        self.funcs[name] = g
        self.order.append(name)
        return g

    def shuffled(self, params):
        """The packet data need not be the first parameter: any order of (bundle, register operand, value)."""
        if self.ch.chance(1, 3, "param-order-canonical"):
            return params
        params = list(params)
        out = []
        while params:
            out.append(params.pop(self.ch.draw(len(params), "param-order")))
        return out

    @staticmethod
    def byref_args(f, arg):
        """Arguments of a call of a routine with pass-through parameters, in the routine's own parameter order."""
        return [("ext", pn) if pt[0] == "ext" else arg for pt, pn in f["params"]]

    def value_funcs(self):
        return [n for n in self.order if self.funcs[n]["ret"] is not None and all(pt[0] != "ext" for pt, _ in self.funcs[n]["params"])]

    @staticmethod
    def param_decl(f):
        out = []
        for i, (t, n) in enumerate(f["params"]):
            if t[0] == "ext":
                out.append(f"{t[1]}{n}" if t[1].endswith("*") else f"{t[1]} {n}")
            else:
                const = "const " if i < len(f.get("const", [])) and f["const"][i] else ""
                out.append(f"{const}{cref.show_type(t)} {n}")
        return out

    @staticmethod
    def failing_registration(f, variant=0):
        """The same name and signature with a body the compiler rejects - a registration that raises must leave nothing
        behind, so the corrected body registered afterwards is the one that runs.
        variant 0: unsupported loop in front; 1: a call of an unknown routine while another call of the same expression is
        pending; 2: the same with a pending postfix increment; 3: the unsupported loop after the body's own statements"""
        good = cref.show_stmts(f["body"])
        p0 = [n for t, n in f["params"] if t[0] != "ext"][0]
        loop = "while (" + p0 + ") { " + p0 + " = " + p0 + " - 1; }"
        if variant == 1:
            body = "{ uint32_t frq = clo32((uint32_t) " + p0 + ") + vf_never_registered((uint32_t) " + p0 + "); " + good + " }"
        elif variant == 2:
            body = "{ int32_t fri = 0; int32_t frj = fri++ + vf_never_registered((uint32_t) " + p0 + "); " + good + " }"
        elif variant == 3:
            nonret = cref.show_stmts([st for st in f["body"] if st[0] != "return"])
            body = "{ " + nonret + " " + loop + " " + cref.show_stmts([st for st in f["body"] if st[0] == "return"]) + " }"
        else:
            body = "{ " + loop + " " + good + " }"
        return {"name": f["name"], "ret": cref.show_type(f["ret"]), "params": CallGen.param_decl(f), "body": body}

    @staticmethod
    def registration(f):
        return {"name": f["name"], "ret": cref.show_type(f["ret"]),
                "params": CallGen.param_decl(f),
                "body": "{ " + cref.show_stmts(f["body"]) + " }"}

    # ------------------------------------------------------------ callers
    def caller_var(self, k):
        if self.cfg == "A":
            return ["ca", "cb", "cx", "cy", "cout", "cz"][k]
        return self.ch.choice(POOL_NAMES, "cname") if k < 5 else "out"

    def arg_for(self, P, src_reg, label):
        """A typed local loaded from a 64-bit register, of a type whose conversion to P is allowed in this config."""
        A = self.pick(ALL_T, lambda a: not (self.cfg == "A" and f5a(a, P)), label)
        return A

    def gen_caller(self, allow_bundled=True, force_form=None, force_func=None):
        """-> dict(text, stmts, outs: [(name, type)], convention: bool, uses: [fnames], ncalls)"""
        ch = self.ch
        names_used = set()

        def fresh(k):
            n = self.caller_var(k)
            while n in names_used:
                n = n + "q"
            names_used.add(n)
            return n

        user = [self.funcs[n] for n in self.value_funcs()]
        voids = [self.funcs[n] for n in self.order if any(pt[0] == "ext" for pt, _ in self.funcs[n]["params"])]
        # conv_round shifts by its second argument: only called with literal amounts (FIXED_CALLERS), never with data
        bundled = [dict(v, name=k) for k, v in cref.BUNDLED.items() if k != "conv_round"] if allow_bundled else []
        pool = user * 3 + bundled
        form = ch.weighted([("single", 5), ("two_calls", 5), ("parked", 4), ("arg_call", 3), ("three_calls", 2), ("cond_calls", 1),
                            ("const_cond_calls", 2), ("reassign", 3), ("void_call", 4 if voids else 0), ("loop_cond_call", 2),
                            ("branch_call", 4 if voids else 0), ("two_byref_calls", 3 if voids else 0), ("logic_calls", 3),
                            ("same_arg", 3 if any(len(f["params"]) == 2 for f in user) else 0)], "cform")
        if force_form in ("two_byref_calls", "void_call", "branch_call") and voids:
            form = force_form
        if force_form == "same_arg" and any(len(f["params"]) == 2 for f in user):
            form = force_form
        if force_func is not None:
            form = "single"
        stmts = []
        srcs = ["RssV", "RttV"]

        def load_arg(P, k):
            if ch.chance(1, 5, "cmparg"):
                # the argument is directly a comparison result (int 0/1 in C)
                T = ch.choice(WIDE_T, "cmpT")
                v1, v2 = fresh(k), fresh(k)
                stmts.append(("decl", T, v1, ("cast", T, ("reg", "RssV", ("s", 64)))))
                stmts.append(("decl", T, v2, ("cast", T, ("reg", "RttV", ("s", 64)))))
                return ("cmp", ch.choice(["<", ">", "==", "!=", "<=", ">="], "cmpop"), ("var", v1), ("var", v2))
            if ch.chance(1, 4, "castarg"):
                # an explicit cast as the argument expression: variable type V -> cast type C -> parameter type P
                C = self.pick(ALL_T, lambda c: not (self.cfg == "A" and f5a(c, P)), "C")
                V = self.pick(ALL_T, lambda t: not f5a(t, C), "V")
                v = fresh(k)
                stmts.append(("decl", V, v, ("cast", V, ("reg", srcs[k % 2], ("s", 64)))))
                return ("cast", C, ("var", v))
            A = self.arg_for(P, srcs[k % 2], "A")
            v = fresh(k)
            stmts.append(("decl", A, v, ("cast", A, ("reg", srcs[k % 2], ("s", 64)))))
            return ("var", v)

        def call(f, k0):
            args = []
            for j, (pt, _) in enumerate(f["params"]):
                args.append(load_arg(pt, k0 + j))
            return ("call", f["name"], args)

        convention = True
        if form == "single":
            f = force_func if force_func is not None else ch.choice(pool, "f")
            out = fresh(5)
            stmts.append(("decl", f["ret"], out, call(f, 0)))
            outs = [(out, f["ret"])]
            uses = [f["name"]]
        elif form in ("two_calls", "three_calls", "cond_calls", "const_cond_calls"):
            f = ch.choice(pool, "f")
            R = f["ret"]
            same = [g for g in pool if g["ret"] == R]
            g = ch.choice(same, "g")
            uses = [f["name"], g["name"]]
            c1, c2 = call(f, 0), call(g, 2)
            op = ch.choice(["+", "-", "^", "|", "&"], "op")
            if form == "cond_calls":
                e = ("cond", ("cmp", "<", ("reg", "RssV", ("s", 64)), ("reg", "RttV", ("s", 64))), c1, c2)
            elif form == "const_cond_calls":
                # a compile-time constant condition: the compiler folds the ?: and drops the dead arm's call
                h = ch.choice(same, "h")
                uses.append(h["name"])
                e = ("cond", ("lit", ch.choice([0, 1], "constc"), ("s", 32)), c1, c2)
                third = call(h, 4 if self.cfg == "A" else 1)
                e = ("bin", op, e, third) if ch.chance(1, 2, "side") else ("bin", op, third, e)
            else:
                e = ("bin", op, c1, c2)
                if form == "three_calls":
                    h = ch.choice(same, "h")
                    uses.append(h["name"])
                    e = ("bin", ch.choice(["+", "^"], "op2"), e, call(h, 4 if self.cfg == "A" else 1))
            T = cref.promote(R)
            out = fresh(5)
            stmts.append(("decl", T, out, e))
            outs = [(out, T)]
        elif form == "void_call":
            # a void routine called as a statement; its value argument contains another call, which must run first
            f = ch.choice(voids, "vf")
            P = [pt for pt, _ in f["params"] if pt[0] != "ext"][0]
            inner = [g for g in pool if not (self.cfg == "A" and f5a(g["ret"], P))]
            g = ch.choice(inner, "g") if inner else dict(cref.BUNDLED["clz32"], name="clz32")
            # (the inner call's arguments read registers directly: the compiler moves a parent-less call in front of
            #  all earlier statements - statement order is C05/C06, not this property - so it must not depend on them)
            def direct(g_):
                return ("call", g_["name"], [("cast", self.arg_for(pt, "RssV", "A"), ("reg", srcs[j % 2], ("s", 64)))
                                              for j, (pt, _) in enumerate(g_["params"])])
            if ch.chance(3, 4, "inner-call"):
                arg = direct(g)
            else:
                A_ = self.arg_for(P, "RssV", "A")
                arg = ("cast", A_, ("reg", "RssV", ("s", 64)))
            stmts.append(("expr", ("call", f["name"], self.byref_args(f, arg))))
            outs = [("@RdV", ("s", 32))]
            uses = [f["name"], g["name"]]
        elif form == "branch_call":
            # a call with a by-reference register operand as a statement of one arm of an if: it runs only when that arm does
            valued = [x for x in voids if x["ret"] is not None]
            f = ch.choice(valued if valued and ch.chance(2, 3, "valued") else voids, "vf")
            P = [pt for pt, _ in f["params"] if pt[0] != "ext"][0]
            A_ = self.arg_for(P, "RssV", "A")
            arg = ("cast", A_, ("reg", "RssV", ("s", 64)))
            callst = ("expr", ("call", f["name"], self.byref_args(f, arg)))
            other = ("regassign", "RdV", ("lit", ch.choice([0, 7, 0x1234], "blit"), ("s", 32)), ("s", 32))
            cond = ("cmp", ch.choice(["<", ">=", "=="], "bcmp"), ("reg", "RssV", ("s", 64)), ("reg", "RttV", ("s", 64)))
            if ch.chance(1, 2, "call-in-else"):
                stmts.append(("if", cond, [other], [callst]))
            else:
                stmts.append(("if", cond, [callst], [other]))
            outs = [("@RdV", ("s", 32))]
            uses = [f["name"]]
        elif form == "two_byref_calls":
            # two calls that write the same by-reference register operand, as statements of one block: they run in source order
            valued = [x for x in voids if x["ret"] is not None]
            # (both value-returning or both void: a parent-less value-returning call is moved in front of the earlier
            #  statements of its block by the compiler - statement order is C05/C06, not this property - so it never follows
            #  a void call here)
            novalue = [x for x in voids if x["ret"] is None]
            cls = valued if valued and (not novalue or ch.chance(2, 3, "valued")) else novalue
            fs = [ch.choice(cls, "vf2") for _ in range(2)]
            calls_ = []
            for j, f in enumerate(fs):
                P = [pt for pt, _ in f["params"] if pt[0] != "ext"][0]
                A_ = self.arg_for(P, "RssV", "A")
                calls_.append(("expr", ("call", f["name"], self.byref_args(f, ("cast", A_, ("reg", srcs[j], ("s", 64)))))))
            other = ("regassign", "RdV", ("lit", ch.choice([0, 7, 0x1234], "blit"), ("s", 32)), ("s", 32))
            cond = ("cmp", ch.choice(["<", ">=", "=="], "bcmp"), ("reg", "RssV", ("s", 64)), ("reg", "RttV", ("s", 64)))
            if ch.chance(1, 2, "call-in-else"):
                stmts.append(("if", cond, [other], calls_))
            else:
                stmts.append(("if", cond, calls_, [other]))
            outs = [("@RdV", ("s", 32))]
            uses = [f["name"] for f in fs]
        elif form == "same_arg":
            # one variable passed for both parameters of a routine (each parameter gets its own conversion)
            two = [f for f in user if len(f["params"]) == 2]
            mixed = [f for f in two if f.get("kind") == "mixed_sign"]
            f = ch.choice(mixed if mixed and ch.chance(2, 3, "mixed") else two, "f")
            ok_t = [a for a in ALL_T if not (self.cfg == "A" and any(f5a(a, pt) for pt, _ in f["params"]))]
            A_ = ch.choice(ok_t, "A") if ok_t else f["params"][0][0]
            narrow_signed = [a for a in ok_t if a[0] == "s" and all(a[1] < pt[1] for pt, _ in f["params"])]
            if narrow_signed and ch.chance(1, 2, "narrow-signed-operand"):
                A_ = ch.choice(narrow_signed, "A-narrow")       # both conversions widen, each with its own signedness rule
            v = fresh(0)
            stmts.append(("decl", A_, v, ("cast", A_, ("reg", "RssV", ("s", 64)))))
            out = fresh(5)
            stmts.append(("decl", f["ret"], out, ("call", f["name"], [("var", v), ("var", v)])))
            outs = [(out, f["ret"])]
            uses = [f["name"]]
        elif form == "logic_calls":
            # !, && and || applied directly to call results (int 0/1 in C), then the same routine's result where a
            # conversion is needed
            f = ch.choice(pool, "f")
            same = [g for g in pool if g["ret"] == f["ret"]]
            g = ch.choice(same, "g")
            lop = ch.choice(["lnot", "land", "lor"], "lop")
            l = fresh(3)
            if lop == "lnot":
                e = ("lnot", call(f, 0))
                uses = [f["name"]]
            else:
                e = (lop, call(f, 0), call(g, 2))
                uses = [f["name"], g["name"]]
            # (as a branch condition: what type a stored logical result has is not this property's subject)
            stmts.append(("decl", ("s", 32), l, ("lit", 0, ("s", 32))))
            stmts.append(("if", e, [("assign", l, ("lit", 1, ("s", 32)))], []))
            T = self.pick(ALL_T, lambda t: t != f["ret"] and not (self.cfg == "A" and f5a(f["ret"], t)), "T") or f["ret"]
            out = fresh(5)
            second = call(f, 1)
            if ch.chance(1, 2, "logic-then-sum"):
                second = ("bin", "+", second, call(g, 3 if self.cfg == "A" else 0))
                T = self.pick(ALL_T, lambda t: not (self.cfg == "A" and f5a(cref.promote(f["ret"]), t)), "T2") or cref.promote(f["ret"])
                uses.append(g["name"])
            stmts.append(("decl", T, out, second))
            outs = [(l, ("s", 32)), (out, T)]
        elif form == "loop_cond_call":
            # a call inside a loop condition
            f = ch.choice(pool, "f")
            acc = fresh(4)
            c1 = call(f, 0)
            stmts.append(("decl", ("s", 32), acc, ("lit", 0, ("s", 32))))
            cond = ("cmp", "<", ("var", "i"), ("bin", "&", c1, ("lit", 7, ("s", 32))))
            stmts.append(("forc", "i", cond, [("assign", acc, ("bin", "+", ("var", acc), ("lit", 1, ("s", 32))))]))
            outs = [(acc, ("s", 32))]
            uses = [f["name"]]
        elif form == "reassign":
            # the same routine called twice with the same *variable*, which is assigned in between
            one = [f for f in pool if len(f["params"]) == 1]
            f = ch.choice(one, "f") if one else dict(cref.BUNDLED["clz32"], name="clz32")
            P = f["params"][0][0]
            A = self.arg_for(P, "RssV", "A")
            x = fresh(0)
            stmts.append(("decl", A, x, ("cast", A, ("reg", "RssV", ("s", 64)))))
            a = fresh(3)
            stmts.append(("decl", f["ret"], a, ("call", f["name"], [("var", x)])))
            stmts.append(("assign", x, ("cast", A, ("reg", "RttV", ("s", 64)))))
            out = fresh(5)
            stmts.append(("decl", f["ret"], out, ("call", f["name"], [("var", x)])))
            outs = [(a, f["ret"]), (out, f["ret"])]
            uses = [f["name"]]
        elif form == "parked":
            f = ch.choice(pool, "f")
            g = ch.choice(pool, "g")
            uses = [f["name"], g["name"]]
            x = fresh(3)
            stmts.append(("decl", f["ret"], x, call(f, 0)))
            out = fresh(5)
            stmts.append(("decl", g["ret"], out, call(g, 1)))
            outs = [(x, f["ret"]), (out, g["ret"])]
        else:  # arg_call: f(g(a))
            g = ch.choice(pool, "g")
            if ch.chance(1, 2, "unconverted-forward"):
                # g's result is passed on without any conversion to a routine that reads its parameter again after a
                # call of its own (the by-name splice of the argument then meets the inner call's ret_val)
                rereaders = [f for f in pool if len(f["params"]) == 1 and (f.get("kind") == "nested" or f["name"] == "fbrev")]
                if rereaders:
                    f0 = ch.choice(rereaders, "rereader")
                    same = [x for x in pool if x["ret"] == f0["params"][0][0]]
                    if same:
                        g = ch.choice(same, "g-same-type")
            cands = [f for f in pool if len(f["params"]) == 1 and not (self.cfg == "A" and f5a(g["ret"], f["params"][0][0]))]
            cands = cands + [f for f in cands if f.get("kind") == "nested" or f["name"] == "fbrev"] * 3
            if not cands:
                cands = [g] if len(g["params"]) == 1 else [dict(cref.BUNDLED["clz32"], name="clz32")]
            f = ch.choice(cands, "f")
            if self.cfg == "A" and f5a(g["ret"], f["params"][0][0]):
                convention = False
            uses = [f["name"], g["name"]]
            out = fresh(5)
            stmts.append(("decl", f["ret"], out, ("call", f["name"], [call(g, 0)])))
            outs = [(out, f["ret"])]
        text = "{ " + cref.show_stmts(stmts) + " }"
        res = {"text": text, "stmts": stmts, "outs": outs, "convention": convention, "uses": uses, "form": form}
        if self.cfg == "B" and form in ("void_call", "branch_call", "two_byref_calls") and ch.chance(1, 3, "byref-operand"):
            # (configuration B only: known finding F12 - the callee binds a register-operand parameter by its *name*)
            # the by-reference operand is an explicitly numbered register or an alias (declared as a HexOp struct, passed as
            # &name) instead of an operand letter (declared as a pointer)
            import re as _re
            optext, key = ch.choice([("R3", "R3_op"), ("HEX_REG_ALIAS_LR", "lr_op"), ("R7", "R7_op")], "byref-op")
            res["text"] = _re.sub(r"\bRdV\b", optext, text)
            res["byref_key"] = key
        return res


def all_funcs(gen_funcs: dict) -> dict:
    d = {k: dict(v, name=k) for k, v in cref.BUNDLED.items()}
    d.update(gen_funcs)
    return d


def to_json(x):
    if isinstance(x, tuple):
        return [to_json(y) for y in x]
    if isinstance(x, list):
        return [to_json(y) for y in x]
    if isinstance(x, dict):
        return {k: to_json(v) for k, v in x.items() if k != "native"}
    return x


_TAGS = {"lit", "var", "reg", "cast", "bin", "shift", "cmp", "neg", "not", "lnot", "land", "lor", "cond", "call", "postinc",
         "decl", "assign", "regassign", "if", "return", "expr", "for", "forc", "ext", "s", "u"}


def from_json(x):
    if isinstance(x, list):
        if x and isinstance(x[0], str) and x[0] in _TAGS:
            return tuple(from_json(y) for y in x)
        return [from_json(y) for y in x]
    if isinstance(x, dict):
        return {k: from_json(v) for k, v in x.items()}
    return x
