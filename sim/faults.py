"""Fault injection seams.

FaultyLark       wraps lark.Lark: raises planned exceptions for planned texts (engine P) and offers
                 the declared throughput stubs (object memo / parse memo)
CallbackFault    raises at the k-th transformer callback of an armed compilation (engine H)
"""
from __future__ import annotations

import errno
import hashlib

import lark
from lark import Lark as RealLark
from lark.exceptions import LarkError

# ---------------------------------------------------------------------------- parse faults


def text_key(text: str) -> str:
    return hashlib.sha256(text.encode()).hexdigest()[:20]


class InjectedUnpicklableLarkError(LarkError):
    """A lark error that carries something pickle refuses (a closure)."""

    def __init__(self, msg="injected"):
        super().__init__(msg)
        self.callback = lambda: None


class InjectedBadCtorError(Exception):
    """Pickles fine, but cannot be rebuilt: __init__ needs two arguments, args holds one."""

    def __init__(self, a, b):
        super().__init__(a)
        self.b = b


def make_fault(kind: str) -> Exception:
    if kind == "RecursionError":
        return RecursionError("injected: maximum recursion depth exceeded")
    if kind == "MemoryError":
        return MemoryError("injected")
    if kind == "ValueError":
        return ValueError("injected")
    if kind == "KeyError":
        return KeyError("injected")
    if kind == "AssertionError":
        return AssertionError("injected")
    if kind == "OSError":
        return OSError(errno.EIO, "injected I/O error")
    if kind == "InjectedUnpicklableLarkError":
        return InjectedUnpicklableLarkError()
    if kind == "InjectedBadCtorError":
        return InjectedBadCtorError("injected", 1)
    raise ValueError(kind)


FAULT_KINDS = ["RecursionError", "MemoryError", "ValueError", "KeyError", "AssertionError", "OSError",
               "InjectedUnpicklableLarkError", "InjectedBadCtorError"]


class ParseSeam:
    """Process-global configuration of the Lark seam (inherited by forked pool workers)."""
    mode = "real"                   # real | objmemo | memoparse
    plan: dict[str, str] = {}       # text_key -> fault kind
    lark_objects: dict = {}         # (grammar digest, options) -> Lark      [objmemo, memoparse]
    parse_memo: dict = {}           # (grammar digest, text) -> ("ok", tree) | ("exc", exception)
    constructed = 0
    parses = 0
    faults_fired = 0

    @classmethod
    def reset(cls, mode="real", plan=None):
        cls.mode = mode
        cls.plan = dict(plan or {})
        cls.constructed = cls.parses = cls.faults_fired = 0


class FaultyLark:
    """Same call interface as lark.Lark as far as the code under test uses it."""

    def __init__(self, grammar, **options):
        ParseSeam.constructed += 1
        self._gkey = hashlib.sha256(grammar.encode()).hexdigest()[:20] if isinstance(grammar, str) else None
        self._okey = tuple(sorted((k, repr(v)) for k, v in options.items()))
        if ParseSeam.mode == "real" or self._gkey is None:
            self._lark = RealLark(grammar, **options)
        else:
            key = (self._gkey, self._okey)
            if key not in ParseSeam.lark_objects:
                ParseSeam.lark_objects[key] = RealLark(grammar, **options)
            self._lark = ParseSeam.lark_objects[key]

    def parse(self, text, *a, **kw):
        ParseSeam.parses += 1
        from . import simpool as _sp
        _sp.fire_stale_timers()         # simulated clock of a pool worker: timers left armed by earlier tasks expire now
        if isinstance(text, str):
            kind = ParseSeam.plan.get(text_key(text))
            if kind is not None:
                ParseSeam.faults_fired += 1
                raise make_fault(kind)
        if ParseSeam.mode == "memoparse" and isinstance(text, str) and not a and not kw:
            key = (self._gkey, self._okey, text)
            hit = ParseSeam.parse_memo.get(key)
            if hit is None:
                try:
                    hit = ("ok", self._lark.parse(text))
                except Exception as e:  # noqa: BLE001 - re-raised below, verbatim
                    hit = ("exc", e)
                ParseSeam.parse_memo[key] = hit
            if hit[0] == "ok":
                return hit[1]
            raise hit[1]
        return self._lark.parse(text, *a, **kw)

    def __getattr__(self, name):
        return getattr(self._lark, name)


# ---------------------------------------------------------------------------- callback faults


class CallbackFault:
    """Wraps `RZILTransformer._call_userfunc` (inherited from lark.Transformer, looked up on the
    class for every node): the k-th callback of the armed compilation raises.

    when = "pre":  before the callback runs
    when = "post": after it ran (and mutated transformer state)
    """

    def __init__(self, transformer_cls):
        self.cls = transformer_cls
        self.orig = transformer_cls._call_userfunc
        self.own = "_call_userfunc" in transformer_cls.__dict__
        self.count = 0
        self.armed = None        # (k, when, exc kind)
        self.fired = False
        fault = self

        def wrapped(self_t, tree, new_children=None):
            k = fault.count
            fault.count += 1
            arm = fault.armed
            if arm is not None and arm[0] == k and arm[1] == "pre":
                fault.armed = None
                fault.fired = True
                raise make_fault(arm[2])
            res = fault.orig(self_t, tree, new_children)
            if arm is not None and arm[0] == k and arm[1] == "post":
                fault.armed = None
                fault.fired = True
                raise make_fault(arm[2])
            return res

        transformer_cls._call_userfunc = wrapped
        self.meta = None

    def install_meta(self, ext_cls):
        fault = self

        class _Meta:
            count = 0
            armed = None
            orig = ext_cls.set_token_meta_data
        self.meta = _Meta
        self.meta_cls = ext_cls

        def wrapped_meta(self_e, token, **kwargs):
            res = _Meta.orig(self_e, token, **kwargs)
            k = _Meta.count
            _Meta.count += 1
            arm = _Meta.armed
            if arm is not None and arm[0] == k:
                _Meta.armed = None
                fault.fired = True
                raise make_fault(arm[1])
            return res

        ext_cls.set_token_meta_data = wrapped_meta

    def arm(self, k, when, kind):
        self.count = 0
        self.fired = False
        self.armed = (k, when, kind)
        if self.meta is not None:
            self.meta.count = 0
            self.meta.armed = None

    def arm_meta(self, k, kind):
        """Second fault site: raise right *after* the k-th call of the extension's set_token_meta_data, i.e.
        inside a callback, after it recorded an attribute flag and before it created its operand."""
        self.count = 0
        self.fired = False
        self.armed = (-1, "pre", kind)
        self.meta.count = 0
        self.meta.armed = (k, kind)

    def disarm(self):
        self.armed = None
        n = self.count
        self.count = 0
        if self.meta is not None:
            self.meta.armed = None
            self.nmeta = self.meta.count
            self.meta.count = 0
        return n

    def uninstall(self):
        if self.own:
            self.cls._call_userfunc = self.orig
        else:
            del self.cls._call_userfunc
