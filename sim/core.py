"""Simulator core shared by all engines.

Chooser      every random decision of a run goes through here (one integer decides everything)
EventLog     what happened, in order; its digest is the identity of a run
Violation    an oracle failure with a *signature* (used by the shrinker and known-findings)
ddmin        generic list minimiser
replay I/O   JSON files under /verif/replays

Nothing in this module reads a clock or draws randomness on its own.
"""
from __future__ import annotations

import hashlib
import json
import os
import random
import sys

VERIF_DIR = os.path.dirname(os.path.dirname(os.path.abspath(__file__)))
DEFAULT_SEED = 20261002


def repo_dir() -> str:
    return os.environ.get("VERIF_REPO", "/repo")


def setup_repo_imports() -> str:
    """Make `import rzilcompiler` resolve to the tree under test and chdir into it.

    `Conf.get_path` asks git for the top level of the *current directory*, so the harness
    has to live inside the repository while it runs.
    """
    repo = repo_dir()
    if not os.path.isdir(os.path.join(repo, "rzilcompiler")):
        raise RuntimeError(f"no rzilcompiler package under {repo}")
    # an editable install may point somewhere else: the path entry wins
    if repo in sys.path:
        sys.path.remove(repo)
    sys.path.insert(0, repo)
    os.chdir(repo)
    return repo


def stable_hash(*parts) -> str:
    h = hashlib.sha256()
    for p in parts:
        if isinstance(p, bytes):
            h.update(p)
        else:
            h.update(json.dumps(p, sort_keys=True, default=str).encode())
        h.update(b"\x00")
    return h.hexdigest()


def derive_seed(base: int, *parts) -> int:
    return int(stable_hash(base, *parts)[:16], 16)


class Chooser:
    """All nondeterminism of a run.

    seed mode:   values come from random.Random(seed) and are recorded on the tape
    replay mode: values come from the given tape; a value that is no longer enabled
                 (out of range) or a tape that has run out yields 0 = "first enabled choice"
    """

    def __init__(self, seed: int | None = None, tape: list[int] | None = None):
        if (seed is None) == (tape is None):
            raise ValueError("exactly one of seed / tape")
        self.seed = seed
        self._rng = random.Random(seed) if seed is not None else None
        self._replay = list(tape) if tape is not None else None
        self._pos = 0
        self.tape: list[int] = []
        self.labels: list[str] = []

    def draw(self, n: int, label: str = "") -> int:
        if n <= 0:
            raise ValueError(f"draw({n}) for {label}")
        if self._replay is not None:
            if self._pos < len(self._replay):
                v = self._replay[self._pos]
                self._pos += 1
                if not (0 <= v < n):
                    v = 0
            else:
                v = 0
        else:
            v = self._rng.randrange(n)
        self.tape.append(v)
        self.labels.append(label)
        return v

    def chance(self, num: int, den: int, label: str = "") -> bool:
        return self.draw(den, label) < num

    def choice(self, seq, label: str = ""):
        return seq[self.draw(len(seq), label)]

    def weighted(self, pairs, label: str = ""):
        """pairs: list of (item, integer weight>=0)"""
        total = sum(w for _, w in pairs)
        if total <= 0:
            raise ValueError("no positive weight")
        v = self.draw(total, label)
        for item, w in pairs:
            if v < w:
                return item
            v -= w
        raise AssertionError

    def randint(self, lo: int, hi: int, label: str = "") -> int:
        return lo + self.draw(hi - lo + 1, label)

    def shuffle(self, items: list, label: str = "") -> list:
        items = list(items)
        for i in range(len(items) - 1, 0, -1):
            j = self.draw(i + 1, label)
            items[i], items[j] = items[j], items[i]
        return items

    def sample(self, items: list, k: int, label: str = "") -> list:
        return self.shuffle(items, label)[:k]


class EventLog:
    def __init__(self):
        self.events: list = []

    def add(self, kind: str, *payload):
        self.events.append([kind, *payload])

    def digest(self) -> str:
        return stable_hash(self.events)[:24]

    def __len__(self):
        return len(self.events)


class Violation:
    """An oracle failure.  `signature()` identifies the *class* of the failure: the shrinker keeps
    a smaller candidate only if it fails with the same signature, and known findings are matched
    on it (plus an input-class predicate)."""

    def __init__(self, prop: str, oracle: str, cls: str, key: str = "", detail=None, step: int | None = None):
        self.prop = prop
        self.oracle = oracle
        self.cls = cls
        self.key = key
        self.detail = detail
        self.step = step

    def signature(self) -> str:
        return f"{self.prop}/{self.oracle}/{self.cls}/{self.key}"

    def to_json(self):
        return {"property": self.prop, "oracle": self.oracle, "class": self.cls, "key": self.key,
                "step": self.step, "detail": self.detail, "signature": self.signature()}

    @staticmethod
    def from_json(d):
        return Violation(d["property"], d["oracle"], d["class"], d.get("key", ""), d.get("detail"), d.get("step"))

    def __repr__(self):
        return f"Violation({self.signature()} step={self.step})"


class HarnessError(Exception):
    """Something went wrong in the machinery, not in the system under test."""


def ddmin(items: list, fails, budget: list[int]) -> list:
    """Classic delta debugging on a list.  fails(candidate) -> bool.  budget: [remaining calls]."""
    n = 2
    items = list(items)
    while len(items) >= 2 and budget[0] > 0:
        chunk = max(1, len(items) // n)
        subsets = [items[i:i + chunk] for i in range(0, len(items), chunk)]
        reduced = False
        for i in range(len(subsets)):
            if budget[0] <= 0:
                break
            complement = [x for j, s in enumerate(subsets) if j != i for x in s]
            budget[0] -= 1
            if complement and fails(complement):
                items = complement
                n = max(n - 1, 2)
                reduced = True
                break
        if not reduced:
            if n >= len(items):
                break
            n = min(len(items), n * 2)
    # final single-element removal pass
    i = 0
    while i < len(items) and len(items) > 1 and budget[0] > 0:
        cand = items[:i] + items[i + 1:]
        budget[0] -= 1
        if fails(cand):
            items = cand
        else:
            i += 1
    return items


def write_json(path: str, obj) -> None:
    os.makedirs(os.path.dirname(path), exist_ok=True)
    tmp = path + ".tmp%d" % os.getpid()
    with open(tmp, "w") as f:
        json.dump(obj, f, indent=1, sort_keys=True, default=str)
        f.write("\n")
    os.replace(tmp, path)


def read_json(path: str):
    with open(path) as f:
        return json.load(f)


def replay_path(prop: str, tag: str) -> str:
    d = os.path.join(VERIF_DIR, "replays", "tmp")
    os.makedirs(d, exist_ok=True)
    return os.path.join(d, f"{prop}-{tag}.json")
