"""Engine P: a deterministic stand-in for multiprocessing.Pool.

Real forked worker processes execute the real task function and really pickle arguments and
results.  What is *not* real is the choice of who runs and whose result arrives next: every such
choice is drawn from the run's Chooser, so one tape is one exactly repeatable execution.

Contract modelled (checked against the real Pool in selftest/pool_model.py):
  * Pool(processes=None, initializer, initargs, maxtasksperchild); processes=None -> "cpu count",
    which is a property of the machine, hence a scheduler choice in 1..16
  * tasks are handed out in FIFO order to whichever idle worker the scheduler picks
  * apply/apply_async/map/map_async/starmap/starmap_async/imap/imap_unordered with chunksize
  * imap yields in submission order, imap_unordered in delivery order
  * an exception raised by the task function is re-raised at that result's position
  * a result that cannot be pickled in the worker becomes MaybeEncodingError
  * a result that cannot be *un*pickled in the parent kills the result handler: nothing is
    delivered any more and waiting for it would block forever (measured with the real Pool on
    this image).  Waiting for something that can no longer arrive raises SimHang.
  * a task function that ends the worker (SystemExit, os._exit) loses the task; the worker is
    replaced; waiting for the lost task hangs (as in the real Pool)
  * timeouts may fire whenever the awaited result has not been delivered yet
  * terminate()/__exit__ discard outstanding work; close()+join() wait for it
"""
from __future__ import annotations

import itertools
import os
import pickle
import signal
import struct
from multiprocessing import TimeoutError as MPTimeoutError
from multiprocessing.pool import ExceptionWithTraceback, MaybeEncodingError
from multiprocessing.reduction import ForkingPickler


class SimHang(BaseException):
    """The code under test waits for something that can never happen."""


class SimStepCap(BaseException):
    """Step cap of the simulated pool exceeded."""


def _send(fd, data: bytes):
    data = struct.pack("<Q", len(data)) + data
    mv = memoryview(data)
    off = 0
    while off < len(mv):
        off += os.write(fd, mv[off:off + (1 << 16)])


class WorkerSilent(Exception):
    """A worker that was handed a task produced nothing for STUCK_AFTER_S of real time (it is blocked, not slow)."""


STUCK_AFTER_S = 75.0


def _recv(fd, stuck_after=None):
    if stuck_after is not None:
        import select
        r, _, _ = select.select([fd], [], [], stuck_after)
        if not r:
            raise WorkerSilent
    hdr = b""
    while len(hdr) < 8:
        c = os.read(fd, 8 - len(hdr))
        if not c:
            raise EOFError
        hdr += c
    n = struct.unpack("<Q", hdr)[0]
    buf = bytearray()
    while len(buf) < n:
        c = os.read(fd, min(1 << 20, n - len(buf)))
        if not c:
            raise EOFError
        buf += c
    return bytes(buf)


def mapstar(args):
    return list(map(*args))


def starmapstar(args):
    return list(itertools.starmap(args[0], args[1]))


TASK_NO = 0          # in a worker: number of the task being executed (the worker's own simulated clock: see SimTimer)


class SimTimer:
    """Stand-in for threading.Timer inside pool workers.  Simulated time: a task takes less than any timer's interval,
    but between two tasks of one worker arbitrarily much time passes - so a timer that is still armed when the worker
    starts its next task has expired, and fires at that task's first parse (`fire_stale_timers`, called by the Lark
    seam).  Timers started and cancelled within one task never fire."""
    armed: list = []
    fire_stale = False

    def __init__(self, interval, function, args=None, kwargs=None):
        self.interval, self.function = interval, function
        self.args, self.kwargs = list(args or []), dict(kwargs or {})
        self.daemon = True
        self.name = "SimTimer"
        self._state = "new"
        self.task_no = None

    def start(self):
        if self._state != "new":
            raise RuntimeError("threads can only be started once")
        self._state = "armed"
        self.task_no = TASK_NO
        SimTimer.armed.append(self)

    def cancel(self):
        if self._state in ("new", "armed"):
            self._state = "cancelled"

    def is_alive(self):
        return self._state == "armed"

    def join(self, timeout=None):
        return None


def fire_stale_timers():
    if not SimTimer.fire_stale:
        return
    for t in list(SimTimer.armed):
        if t._state == "armed" and t.task_no is not None and t.task_no < TASK_NO:
            t._state = "fired"
            SimTimer.armed.remove(t)
            t.function(*t.args, **t.kwargs)
        elif t._state != "armed":
            SimTimer.armed.remove(t)


def _worker_main(rfd, wfd, initializer, initargs):
    global TASK_NO
    if initializer is not None:
        initializer(*initargs)
    while True:
        TASK_NO += 1
        try:
            raw = _recv(rfd)
        except EOFError:
            return
        task = pickle.loads(raw)
        if task is None:
            return
        job, i, func, args, kwds = task
        try:
            result = (True, func(*args, **kwds))
        except Exception as e:
            e = ExceptionWithTraceback(e, e.__traceback__)
            result = (False, e)
        try:
            out = bytes(ForkingPickler.dumps((job, i, result)))
        except Exception as e:
            wrapped = MaybeEncodingError(e, result[1])
            out = bytes(ForkingPickler.dumps((job, i, (False, wrapped))))
        _send(wfd, out)


def _hold_sut_locks():
    import sys as _sys
    import threading as _th
    lock_types = (type(_th.Lock()), type(_th.RLock()))
    held = []
    for modname, mod in list(_sys.modules.items()):
        if not modname.startswith("rzilcompiler") or mod is None:
            continue
        for v in list(vars(mod).values()):
            if isinstance(v, lock_types) and v.acquire(blocking=False):
                held.append(v)
    return held


_PARENT_FDS: set[int] = set()     # parent-side pipe ends; closed in every new child
_LIVE_POOLS: list = []


class _Worker:
    def __init__(self, wid, initializer, initargs):
        self.wid = wid
        p2c_r, p2c_w = os.pipe()
        c2p_r, c2p_w = os.pipe()
        # fault "fork while another caller thread is inside a critical section": every lock the code under test keeps in
        # its module globals is held by "that thread" at the moment of the fork (fork start only); the child inherits it held
        held = _hold_sut_locks() if SimPool.fork_with_held_locks and SimPool.start_method == "fork" else []
        pid = -1
        try:
            pid = os.fork()
        finally:
            if held and pid != 0:
                for lk in held:
                    lk.release()
        if pid == 0:
            try:
                os.close(p2c_w)
                os.close(c2p_r)
                for fd in list(_PARENT_FDS):
                    try:
                        os.close(fd)
                    except OSError:
                        pass
                # like a multiprocessing child: default SIGINT handling, a parent process object, a name of its own
                signal.signal(signal.SIGINT, signal.default_int_handler)
                try:
                    import multiprocessing.process as _mpp
                    _mpp._parent_process = _mpp._ParentProcess("MainProcess", os.getppid(), None)
                    _mpp.current_process()._name = f"SimPoolWorker-{wid + 1}"
                    _mpp.current_process()._identity = (wid + 1,)
                except Exception:  # noqa: BLE001
                    pass
                if SimPool.start_method == "spawn" and SimPool.import_snapshot:
                    # spawn / forkserver start: the worker has the modules as they were right after import, not as the
                    # parent has changed them since (module globals rebound later are back to their initial values)
                    import sys as _sys
                    for modname, snap in SimPool.import_snapshot.items():
                        mod = _sys.modules.get(modname)
                        if mod is None:
                            continue
                        d = vars(mod)
                        for k in list(d):
                            if k not in snap and not k.startswith("__"):
                                del d[k]
                        for k, v in snap.items():
                            if k not in SimPool.snapshot_keep.get(modname, ()):
                                d[k] = v
                _worker_main(p2c_r, c2p_w, initializer, initargs)
            except BaseException:
                pass
            finally:
                os._exit(0)
        os.close(p2c_r)
        os.close(c2p_w)
        self.pid, self.wfd, self.rfd = pid, p2c_w, c2p_r
        _PARENT_FDS.update((self.wfd, self.rfd))
        self.busy = None          # (job, i)
        self.done = 0
        self.seq = -1             # dispatch sequence number of the running task

    def kill(self):
        for fd in (self.wfd, self.rfd):
            try:
                os.close(fd)
            except OSError:
                pass
            _PARENT_FDS.discard(fd)
        try:
            os.kill(self.pid, signal.SIGKILL)
        except OSError:
            pass
        try:
            os.waitpid(self.pid, 0)
        except OSError:
            pass


class _Job:
    def __init__(self, pool):
        self.pool = pool
        self.id = pool._njobs
        pool._njobs += 1
        pool._jobs[self.id] = self

    def _done(self):
        self.pool._jobs.pop(self.id, None)


class ApplyResult(_Job):
    def __init__(self, pool, callback=None, error_callback=None):
        super().__init__(pool)
        self._ready = False
        self._callback = callback
        self._error_callback = error_callback

    def ready(self):
        return self._ready

    def successful(self):
        if not self._ready:
            raise ValueError(f"{self!r} not ready")
        return self._success

    def wait(self, timeout=None):
        try:
            self.pool._wait(lambda: self._ready, timeout, f"job{self.id}")
        except MPTimeoutError:
            pass

    def get(self, timeout=None):
        self.pool._wait(lambda: self._ready, timeout, f"job{self.id}")
        if self._success:
            return self._value
        raise self._value

    def _set(self, i, obj):
        self._success, self._value = obj
        if self._callback and self._success:
            self._callback(self._value)
        if self._error_callback and not self._success:
            self._error_callback(self._value)
        self._ready = True
        self._done()


AsyncResult = ApplyResult


class MapResult(ApplyResult):
    def __init__(self, pool, chunksize, length, callback, error_callback):
        ApplyResult.__init__(self, pool, callback, error_callback)
        self._success = True
        self._value = [None] * length
        self._chunksize = chunksize
        if chunksize <= 0:
            self._number_left = 0
            self._ready = True
            self._done()
        else:
            self._number_left = length // chunksize + bool(length % chunksize)

    def _set(self, i, success_result):
        self._number_left -= 1
        success, result = success_result
        if success and self._success:
            self._value[i * self._chunksize:(i + 1) * self._chunksize] = result
            if self._number_left == 0:
                if self._callback:
                    self._callback(self._value)
                self._ready = True
                self._done()
        else:
            if not success and self._success:
                self._success = False
                self._value = result
            if self._number_left == 0:
                if self._error_callback:
                    self._error_callback(self._value)
                self._ready = True
                self._done()


class IMapIterator(_Job):
    def __init__(self, pool):
        super().__init__(pool)
        self._items = []
        self._index = 0
        self._length = None
        self._unsorted = {}

    def __iter__(self):
        return self

    def next(self, timeout=None):
        if not self._items:
            if self._index == self._length:
                self.pool._jobs.pop(self.id, None)
                raise StopIteration from None
            self.pool._wait(lambda: bool(self._items) or self._index == self._length, timeout, f"imap{self.id}")
            if not self._items:
                if self._index == self._length:
                    self.pool._jobs.pop(self.id, None)
                    raise StopIteration from None
                raise MPTimeoutError from None
        success, value = self._items.pop(0)
        if success:
            return value
        raise value

    __next__ = next

    def _set(self, i, obj):
        if self._index == i:
            self._items.append(obj)
            self._index += 1
            while self._index in self._unsorted:
                obj = self._unsorted.pop(self._index)
                self._items.append(obj)
                self._index += 1
        else:
            self._unsorted[i] = obj
        if self._index == self._length:
            self._done()

    def _set_length(self, length):
        self._length = length
        if self._index == self._length:
            self._done()


class IMapUnorderedIterator(IMapIterator):
    def _set(self, i, obj):
        self._items.append(obj)
        self._index += 1
        if self._index == self._length:
            self._done()


BIASES = ["uniform", "fifo", "lifo", "stall", "burst"]


class SimPool:
    """Drop-in for multiprocessing.Pool driven by sim.core.Chooser."""

    STEP_CAP = 20000
    sim = None      # (chooser, eventlog, stats dict) installed by the engine before the run
    cpus = None     # simulated os.cpu_count() of this run (the engine patches os.cpu_count to the same number)
    start_method = "fork"       # "spawn": workers see module globals as they were at import time
    import_snapshot: dict = {}  # module name -> shallow copy of its globals taken right after import
    snapshot_keep: dict = {}    # module name -> names the harness patched on purpose (seams), kept as they are
    fail_create = None          # exception instance to raise from the constructor (resource exhaustion at pool creation)
    fork_with_held_locks = False  # see _Worker.__init__
    reentry = None              # {"at": n, "count": 0, "fn": callable}: while the caller is blocked on this pool for the n-th
                                # time "another caller thread" runs fn to completion (a schedule of two overlapping API calls)

    def __init__(self, processes=None, initializer=None, initargs=(), maxtasksperchild=None, context=None):
        if SimPool.sim is None:
            raise RuntimeError("SimPool used outside a simulation")
        self.chooser, self.log, self.stats = SimPool.sim
        self.stats["seam_hits"] = self.stats.get("seam_hits", 0) + 1
        if SimPool.fail_create is not None:
            exc, SimPool.fail_create = SimPool.fail_create, None
            self._state = "TERMINATE"
            self._workers = []
            self.log.add("pool-create-failed", type(exc).__name__)
            self.stats["pool_create_failed"] = self.stats.get("pool_create_failed", 0) + 1
            raise exc
        if processes is None:
            # "cpu count" is a property of the machine, hence of the simulated configuration
            processes = SimPool.cpus if SimPool.cpus else 1 + self.chooser.draw(16, "pool.size")
        if processes < 1:
            raise ValueError("Number of processes must be at least 1")
        if maxtasksperchild is not None and (not isinstance(maxtasksperchild, int) or maxtasksperchild <= 0):
            raise ValueError("maxtasksperchild must be a positive int or None")
        if initializer is not None and not callable(initializer):
            raise TypeError("initializer must be a callable")
        self._processes = processes
        self._initializer, self._initargs = initializer, initargs
        self._maxtasks = maxtasksperchild
        self._bias = BIASES[self.chooser.draw(len(BIASES), "pool.bias")]
        self._stalled = self.chooser.draw(processes, "pool.stalled") if self._bias == "stall" else -1
        self._workers = [_Worker(i, initializer, initargs) for i in range(processes)]
        self._taskq: list = []
        self._jobs: dict = {}
        self._njobs = 0
        self._state = "RUN"
        self._handler_dead = False
        self._steps = 0
        self._seq = 0
        self._delivered_seq: list[int] = []
        self._workers_used: set[int] = set()
        self.log.add("pool", processes, self._bias)
        _LIVE_POOLS.append(self)

    # ------------------------------------------------------------------ scheduler
    def _enabled(self):
        ev = []
        if self._taskq:
            ev += [("dispatch", w) for w in self._workers if w.busy is None]
        if not self._handler_dead:
            ev += [("deliver", w) for w in self._workers if w.busy is not None]
        return ev

    def _pick(self, ev):
        if len(ev) == 1:
            return ev[0]
        bias = self._bias
        if bias != "uniform" and self.chooser.draw(4, "sched.follow") != 0:
            disp = [e for e in ev if e[0] == "dispatch"]
            deliv = [e for e in ev if e[0] == "deliver"]
            if bias == "fifo":
                if deliv:
                    return min(deliv, key=lambda e: e[1].seq)
                return disp[0]
            if bias == "lifo":
                if disp:
                    return disp[-1]
                return max(deliv, key=lambda e: e[1].seq)
            if bias == "burst":
                if disp:
                    return disp[self.chooser.draw(len(disp), "sched.burst")]
            if bias == "stall":
                rest = [e for e in ev if e[1].wid != self._stalled]
                if rest:
                    ev = rest
        return ev[self.chooser.draw(len(ev), "sched.event")]

    def _step(self):
        self._steps += 1
        if self._steps > self.STEP_CAP:
            raise SimStepCap(f"more than {self.STEP_CAP} scheduler steps")
        ev = self._enabled()
        if not ev:
            raise SimHang("no enabled event")
        kind, w = self._pick(ev)
        if kind == "dispatch":
            job, i, func, args, kwds = task = self._taskq.pop(0)
            try:
                raw = bytes(ForkingPickler.dumps(task))
            except Exception as e:
                # real pool: the task handler reports the pickling error as this task's result
                self.log.add("task-unpicklable", job, i, type(e).__name__)
                if job in self._jobs:
                    self._jobs[job]._set(i, (False, e))
                return
            w.busy = (job, i)
            w.seq = self._seq
            self._seq += 1
            self._workers_used.add(w.wid)
            _send(w.wfd, raw)
            self.log.add("dispatch", w.wid, job, i)
            return
        # deliver
        try:
            raw = _recv(w.rfd, STUCK_AFTER_S)
        except WorkerSilent:
            self.log.add("worker-stuck", w.wid, *w.busy)
            self.stats["worker_stuck"] = self.stats.get("worker_stuck", 0) + 1
            self._handler_dead = True       # nothing will ever arrive from it; whoever waits for this task hangs
            raise SimHang(f"worker {w.wid} is blocked inside task {w.busy}: no result after {STUCK_AFTER_S:.0f} s of real time")
        except EOFError:
            self.log.add("worker-died", w.wid, *w.busy)
            self.stats["worker_died"] = self.stats.get("worker_died", 0) + 1
            self._replace(w)
            return
        key = w.busy
        w.busy = None
        w.done += 1
        try:
            job, i, res = pickle.loads(raw)
        except Exception as e:
            self._handler_dead = True
            self.stats["handler_died"] = self.stats.get("handler_died", 0) + 1
            self.log.add("handler-died", w.wid, key[0], key[1], type(e).__name__)
            return
        self._delivered_seq.append(w.seq)
        self.log.add("deliver", w.wid, job, i, bool(res[0]))
        if job in self._jobs:
            self._jobs[job]._set(i, res)
        if self._maxtasks and w.done >= self._maxtasks:
            self._replace(w)

    def _replace(self, w):
        idx = self._workers.index(w)
        w.kill()
        self._workers[idx] = _Worker(w.wid, self._initializer, self._initargs)

    def _wait(self, cond, timeout, what):
        while not cond():
            r = SimPool.reentry
            if r is not None:
                r["count"] += 1
                if r["count"] > r["at"]:
                    SimPool.reentry = None
                    self.log.add("reentry", what)
                    self.stats["reentries"] = self.stats.get("reentries", 0) + 1
                    r["fn"]()
            if timeout is not None and self.chooser.draw(4, "sched.timeout") == 0:
                self.log.add("timeout", what)
                self.stats["timeouts_fired"] = self.stats.get("timeouts_fired", 0) + 1
                raise MPTimeoutError
            if self._state == "TERMINATE":
                raise SimHang(f"waiting for {what} on a terminated pool")
            try:
                self._step()
            except SimHang:
                self.log.add("hang", what)
                raise SimHang(f"waiting for {what}: can never arrive") from None
        # results may arrive ahead of a slow consumer
        extra = self.chooser.draw(4, "sched.extra")
        for _ in range(extra):
            if self._state != "RUN" and not self._taskq and not any(w.busy for w in self._workers):
                break
            if not self._enabled():
                break
            self._step()

    # ------------------------------------------------------------------ API
    def _check_running(self):
        if self._state != "RUN":
            raise ValueError("Pool not running")

    def apply(self, func, args=(), kwds={}):
        return self.apply_async(func, args, kwds).get()

    def apply_async(self, func, args=(), kwds={}, callback=None, error_callback=None):
        self._check_running()
        result = ApplyResult(self, callback, error_callback)
        self._taskq.append((result.id, 0, func, tuple(args), dict(kwds)))
        return result

    def map(self, func, iterable, chunksize=None):
        return self._map_async(func, iterable, mapstar, chunksize).get()

    def starmap(self, func, iterable, chunksize=None):
        return self._map_async(func, iterable, starmapstar, chunksize).get()

    def starmap_async(self, func, iterable, chunksize=None, callback=None, error_callback=None):
        return self._map_async(func, iterable, starmapstar, chunksize, callback, error_callback)

    def map_async(self, func, iterable, chunksize=None, callback=None, error_callback=None):
        return self._map_async(func, iterable, mapstar, chunksize, callback, error_callback)

    @staticmethod
    def _get_tasks(func, it, size):
        it = iter(it)
        while 1:
            x = tuple(itertools.islice(it, size))
            if not x:
                return
            yield (func, x)

    def _map_async(self, func, iterable, mapper, chunksize=None, callback=None, error_callback=None):
        self._check_running()
        if not hasattr(iterable, "__len__"):
            iterable = list(iterable)
        if chunksize is None:
            chunksize, extra = divmod(len(iterable), len(self._workers) * 4)
            if extra:
                chunksize += 1
        if len(iterable) == 0:
            chunksize = 0
        result = MapResult(self, chunksize, len(iterable), callback, error_callback)
        if chunksize:
            for i, x in enumerate(self._get_tasks(func, iterable, chunksize)):
                self._taskq.append((result.id, i, mapper, (x,), {}))
        return result

    def imap(self, func, iterable, chunksize=1):
        return self._imap(func, iterable, chunksize, IMapIterator)

    def imap_unordered(self, func, iterable, chunksize=1):
        return self._imap(func, iterable, chunksize, IMapUnorderedIterator)

    def _imap(self, func, iterable, chunksize, cls):
        self._check_running()
        if chunksize < 1:
            raise ValueError("Chunksize must be 1+, not {0:n}".format(chunksize))
        items = list(iterable)
        result = cls(self)
        if chunksize == 1:
            for i, x in enumerate(items):
                self._taskq.append((result.id, i, func, (x,), {}))
            result._set_length(len(items))
            return result
        n = 0
        for i, x in enumerate(self._get_tasks(func, items, chunksize)):
            self._taskq.append((result.id, i, mapstar, (x,), {}))
            n += 1
        result._set_length(n)
        return (item for chunk in result for item in chunk)

    def close(self):
        if self._state == "RUN":
            self._state = "CLOSE"
            self.log.add("close")

    def join(self):
        if self._state == "RUN":
            raise ValueError("Pool is still running")
        if self._state == "TERMINATE":
            return
        def drained():
            return not self._taskq and not any(w.busy for w in self._workers)
        while not drained():
            try:
                self._step()
            except SimHang:
                self.log.add("hang", "join")
                raise SimHang("join() waits for tasks that can never finish") from None
        self._kill_all()
        self._state = "TERMINATE"

    def terminate(self):
        if self._state == "TERMINATE":
            return
        outstanding = len(self._taskq) + sum(1 for w in self._workers if w.busy)
        self.log.add("terminate", outstanding)
        if outstanding:
            self.stats["terminated_with_outstanding"] = self.stats.get("terminated_with_outstanding", 0) + 1
        self._taskq.clear()
        self._kill_all()
        self._state = "TERMINATE"

    def _kill_all(self):
        if self._workers:
            self.stats.setdefault("pool_summaries", []).append(self.probe_summary())
        for w in self._workers:
            w.kill()
        self._workers = []
        if self in _LIVE_POOLS:
            _LIVE_POOLS.remove(self)

    def __enter__(self):
        self._check_running()
        return self

    def __exit__(self, exc_type, exc_val, exc_tb):
        self.terminate()

    def __del__(self):
        try:
            if self._state != "TERMINATE":
                self._taskq.clear()
                self._kill_all()
                self._state = "TERMINATE"
        except Exception:
            pass

    def __reduce__(self):
        raise NotImplementedError("pool objects cannot be passed between processes or pickled")

    # ------------------------------------------------------------------ probes
    def probe_summary(self):
        seqs = self._delivered_seq
        out_of_order = any(a > b for a, b in zip(seqs, seqs[1:]))
        return {"out_of_order": out_of_order, "workers_used": len(self._workers_used),
                "processes": self._processes, "steps": self._steps}


def cleanup_live_pools():
    for p in list(_LIVE_POOLS):
        try:
            p._taskq.clear()
            p._kill_all()
            p._state = "TERMINATE"
        except Exception:
            pass


# ---------------------------------------------------------------------- concurrent.futures on top of SimPool

class SimFuture:
    """Just enough of concurrent.futures.Future for code that submits work to an executor."""

    def __init__(self, ex, res):
        self._ex, self._res = ex, res
        self._callbacks = []

    def done(self):
        return self._res.ready()

    def running(self):
        return not self._res.ready()

    def cancelled(self):
        return False

    def cancel(self):
        return False

    def result(self, timeout=None):
        from concurrent.futures import TimeoutError as FTimeout
        try:
            return self._res.get(timeout)
        except MPTimeoutError:
            raise FTimeout() from None

    def exception(self, timeout=None):
        from concurrent.futures import TimeoutError as FTimeout
        try:
            self._res.get(timeout)
        except MPTimeoutError:
            raise FTimeout() from None
        except BaseException as e:  # noqa: BLE001
            if isinstance(e, (SimHang, SimStepCap)):
                raise
            return e
        return None

    def add_done_callback(self, fn):
        if self.done():
            fn(self)
        else:
            self._callbacks.append(fn)


class SimExecutor:
    """Drop-in for concurrent.futures.ProcessPoolExecutor driven by the same scheduler as SimPool."""

    def __init__(self, max_workers=None, mp_context=None, initializer=None, initargs=(), max_tasks_per_child=None):
        self._pool = SimPool(max_workers, initializer, initargs, max_tasks_per_child)
        self._futures = []

    def submit(self, fn, /, *args, **kwargs):
        def done(_):
            for cb in list(fut._callbacks):
                cb(fut)
        res = self._pool.apply_async(fn, args, kwargs, callback=done, error_callback=done)
        fut = SimFuture(self, res)
        self._futures.append(fut)
        return fut

    def map(self, fn, *iterables, timeout=None, chunksize=1):
        items = list(zip(*iterables))
        if chunksize < 1:
            raise ValueError("chunksize must be >= 1.")
        it = self._pool.imap(_star(fn), items, chunksize)

        def gen():
            for x in it:
                yield x
        return gen()

    def shutdown(self, wait=True, *, cancel_futures=False):
        if self._pool._state == "TERMINATE":
            return
        if wait and not cancel_futures:
            self._pool.close()
            self._pool.join()
        else:
            self._pool.terminate()

    def __enter__(self):
        return self

    def __exit__(self, *exc):
        self.shutdown(wait=True)
        return False


class _star:
    def __init__(self, fn):
        self.fn = fn

    def __call__(self, args):
        return self.fn(*args)


def sim_as_completed(fs, timeout=None):
    """concurrent.futures.as_completed over SimFutures: yields in *delivery* order chosen by the scheduler."""
    fs = list(fs)
    if not fs or not all(isinstance(f, SimFuture) for f in fs):
        import concurrent.futures as cf
        yield from _REAL_AS_COMPLETED(fs, timeout)
        return
    pending = list(fs)
    pool = fs[0]._ex._pool
    while pending:
        ready = [f for f in pending if f.done()]
        if not ready:
            pool._wait(lambda: any(f.done() for f in pending), timeout, "as_completed")
            ready = [f for f in pending if f.done()]
        # the scheduler may have completed several: hand them out in the order they were delivered
        for f in ready:
            pending.remove(f)
            yield f


def sim_wait(fs, timeout=None, return_when="ALL_COMPLETED"):
    from concurrent.futures._base import DoneAndNotDoneFutures
    fs = list(fs)
    if not fs or not all(isinstance(f, SimFuture) for f in fs):
        return _REAL_WAIT(fs, timeout, return_when)
    pool = fs[0]._ex._pool

    def cond():
        if return_when == "FIRST_COMPLETED":
            return any(f.done() for f in fs)
        if return_when == "FIRST_EXCEPTION":
            return all(f.done() for f in fs) or any(f.done() and f._res._success is False for f in fs)
        return all(f.done() for f in fs)
    try:
        pool._wait(cond, timeout, "wait")
    except MPTimeoutError:
        pass
    return DoneAndNotDoneFutures({f for f in fs if f.done()}, {f for f in fs if not f.done()})


import concurrent.futures as _cf  # noqa: E402

_REAL_AS_COMPLETED = _cf.as_completed
_REAL_WAIT = _cf.wait
