"""Seeds -> forked batch workers -> aggregated reports.

A batch worker executes run indices w, w+W, w+2W, ... until the wall budget or the run cap is
reached.  What a run does is a pure function of (VERIF_SEED, property, run index, code); the
wall clock only decides *how many* indices are covered.  A worker that dies or exceeds the
hard timeout makes the whole batch a HARNESS-ERROR - never a success.
"""
from __future__ import annotations

import faulthandler
import json
import os
import signal
import sys
import time
import traceback

from .core import VERIF_DIR, HarnessError, derive_seed


class Aggregate:
    """Mergeable statistics of many runs."""

    def __init__(self):
        self.runs = 0
        self.counters: dict[str, int] = {}
        self.distinct: dict[str, set] = {}
        self.samples: list = []
        self.violations: list = []      # dicts: {"index","seed","violation":{...},"workload":...}
        self.first_indices: list[int] = []
        self.errors: list[str] = []

    def count(self, key: str, n: int = 1):
        self.counters[key] = self.counters.get(key, 0) + n

    def see(self, family: str, key: str):
        self.distinct.setdefault(family, set()).add(key)

    def to_json(self):
        return {"runs": self.runs, "counters": self.counters,
                "distinct": {k: sorted(v) for k, v in self.distinct.items()},
                "samples": self.samples, "violations": self.violations, "errors": self.errors,
                "first_indices": self.first_indices}

    def merge_json(self, d):
        self.runs += d["runs"]
        for k, v in d["counters"].items():
            self.counters[k] = self.counters.get(k, 0) + v
        for k, v in d["distinct"].items():
            self.distinct.setdefault(k, set()).update(v)
        self.samples.extend(d["samples"])
        self.violations.extend(d["violations"])
        self.errors.extend(d["errors"])
        self.first_indices.extend(d.get("first_indices", []))


def _known_signature(known, prop, sig):
    import re
    return any(k.get("property") == prop and k.get("status") == "known" and re.fullmatch(k["signature"], sig) for k in known)


def _worker(engine, prop, base_seed, wid, nworkers, max_runs, deadline, outpath, stopflag, per_run_timeout, max_viol):
    agg = Aggregate()
    known = []
    try:
        with open(os.path.join(VERIF_DIR, "known_findings.json")) as f:
            known = json.load(f).get("findings", [])
    except (OSError, ValueError):
        pass
    per_sig: dict[str, int] = {}
    try:
        engine.worker_init(wid)
        idx = wid
        while idx < max_runs and time.time() < deadline:
            if os.path.exists(stopflag):
                break
            seed = derive_seed(base_seed, prop, idx)
            faulthandler.dump_traceback_later(per_run_timeout, exit=True)
            try:
                engine.run(idx, seed, agg)
            finally:
                faulthandler.cancel_dump_traceback_later()
            agg.runs += 1
            if len(agg.first_indices) < 4:
                agg.first_indices.append(idx)
            # keep at most two records per signature; stop early only for signatures that are not listed as known
            kept, unknown = [], 0
            per_sig.clear()
            for rec in agg.violations:
                sg = rec["violation"]["signature"]
                per_sig[sg] = per_sig.get(sg, 0) + 1
                if per_sig[sg] <= 2:
                    kept.append(rec)
                if not _known_signature(known, prop, sg):
                    unknown += 1
            agg.violations = kept
            if unknown >= max_viol:
                break
            if unknown and not os.path.exists(stopflag):
                open(stopflag, "w").close()
            idx += nworkers
        engine.worker_fini(wid)
    except BaseException:
        agg.errors.append(f"worker {wid}: " + traceback.format_exc())
    with open(outpath + ".tmp", "w") as f:
        json.dump(agg.to_json(), f, default=str)
    os.replace(outpath + ".tmp", outpath)


def run_batch(engine, prop: str, base_seed: int, *, workers: int, budget_s: float, max_runs: int,
              per_run_timeout: float = 120.0, max_viol_per_worker: int = 6) -> Aggregate:
    workdir = os.path.join(VERIF_DIR, ".work", f"{prop}-{os.getpid()}")
    os.makedirs(workdir, exist_ok=True)
    stopflag = os.path.join(workdir, "stop")
    deadline = time.time() + budget_s
    hard_deadline = deadline + per_run_timeout + 60
    pids = {}
    sys.stdout.flush()
    sys.stderr.flush()
    for w in range(workers):
        out = os.path.join(workdir, f"w{w}.json")
        pid = os.fork()
        if pid == 0:
            code = 0
            try:
                _worker(engine, prop, base_seed, w, workers, max_runs, deadline, out, stopflag,
                        per_run_timeout, max_viol_per_worker)
            except BaseException:
                traceback.print_exc()
                code = 3
            finally:
                sys.stdout.flush()
                sys.stderr.flush()
                os._exit(code)
        pids[pid] = (w, out)
    total = Aggregate()
    failed = []
    pending = dict(pids)
    while pending:
        try:
            pid, status = os.waitpid(-1, os.WNOHANG)
        except ChildProcessError:
            break
        if pid == 0:
            if time.time() > hard_deadline:
                for p in pending:
                    try:
                        os.kill(p, signal.SIGKILL)
                    except OSError:
                        pass
                failed.append("hard timeout: workers killed")
                for p in list(pending):
                    try:
                        os.waitpid(p, 0)
                    except OSError:
                        pass
                break
            time.sleep(0.05)
            continue
        if pid not in pending:
            continue
        w, out = pending.pop(pid)
        if status != 0:
            failed.append(f"worker {w} exit status {status}")
        if os.path.exists(out):
            with open(out) as f:
                total.merge_json(json.load(f))
            os.unlink(out)
        else:
            failed.append(f"worker {w} left no report")
    for f in os.listdir(workdir):
        try:
            os.unlink(os.path.join(workdir, f))
        except OSError:
            pass
    try:
        os.rmdir(workdir)
    except OSError:
        pass
    total.errors.extend(failed)
    if total.errors:
        raise HarnessError("; ".join(e.strip().splitlines()[-1] if "\n" in e else e for e in total.errors)
                           + "\n" + "\n".join(total.errors))
    return total
