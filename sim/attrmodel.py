"""C13 reference model: the attribute set implied by a behaviour part's own *text*.

It never looks at the compiler's parse tree or callbacks; it implements the statement literally:
  COND       <=> an `if` token
  NEW        <=> a .new operand token (<class><letters>N, ..._NEW on explicit registers / aliases)
  MEM_READ   <=> mem_load_      MEM_WRITE <=> mem_store_
  BRANCH     <=> JUMP
  WPRED      <=> a predicate register (P<letters>V, P0..P3[_NEW]) immediately left of an assignment
                 operator; WRITE_Pn for the explicitly numbered ones among them
  NONE       <=> nothing else
"""
from __future__ import annotations

import json
import os
import re

from .core import repo_dir

P = "HEX_IL_INSN_ATTR_"
ASSIGN = r"(?:=(?!=)|[-+*/%&|^]=|<<=|>>=)"


def attrs_of_text(text: str) -> set[str]:
    s = set()
    toks = re.findall(r"[A-Za-z_]\w*|\S", text)
    if "if" in toks:
        s.add("COND")
    if re.search(r"\b[CNPRMQVO](?:[a-z]|[a-z]{2})N\b", text) or re.search(r"_NEW\b", text):
        s.add("NEW")
    if "mem_load_" in text:
        s.add("MEM_READ")
    if "mem_store_" in text:
        s.add("MEM_WRITE")
    if re.search(r"\bJUMP\b", text):
        s.add("BRANCH")
    for m in re.finditer(r"\b(P[a-z]{1,2}V|P[0-3](?:_NEW)?)\s*" + ASSIGN, text):
        s.add("WPRED")
        mm = re.match(r"P([0-3])", m.group(1))
        if mm:
            s.add("WRITE_P" + mm.group(1))
    if not s:
        s.add("NONE")
    return {P + x for x in s}


def transformed_name(insn_name: str) -> str:
    """The documented name transformation (independent re-statement)."""
    if "sa2_tfrsi" in insn_name.lower():
        return "A2_tfrsi"
    if insn_name.endswith("_undocumented") and len(insn_name) > 13:
        return insn_name[:-13]
    if insn_name.startswith("undocumented_") and len(insn_name) > 13:
        return insn_name[13:]
    if insn_name.startswith("IMPORTED_"):
        return insn_name[9:]
    if insn_name.startswith("dep_"):
        return insn_name[4:]
    return insn_name


def noped_list() -> list[str]:
    with open(os.path.join(repo_dir(), "Resources", "Hexagon", "noped_insns.json")) as f:
        return list(json.load(f)["noped"])


def expected_attrs(insn_name: str | None, text: str, noped: list[str]) -> set[str]:
    if insn_name is not None and transformed_name(insn_name) in noped:
        return {P + "NONE"}
    return attrs_of_text(text)
