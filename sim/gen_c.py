"""C17 structure oracle: random ASTs printed with *only the parentheses C requires*, and the mapping
from lark trees back to the same AST shape.

The printer is the independent statement of "the structure C prescribes": precedence and
associativity come from the table below (C11 6.5), `else` binds to the nearest `if`, a cast
applies to the following cast-expression, postfix binds tighter than unary, `?:` and assignment
are right associative.
"""
from __future__ import annotations

from .core import Chooser

# ---- C precedence table (higher binds tighter); all binary operators are left associative
BIN = {
    "*": 12, "/": 12, "%": 12, "+": 11, "-": 11, "<<": 10, ">>": 10,
    "<": 9, ">": 9, "<=": 9, ">=": 9, "==": 8, "!=": 8, "&": 7, "^": 6, "|": 5, "&&": 4, "||": 3,
}
BIN_OPS = list(BIN)
P_COND, P_ASSIGN, P_UNARY, P_POSTFIX, P_ATOM = 2, 1, 14, 15, 16
P_COMMA = 0
ASSIGN_OPS = ["=", "+=", "-=", "*=", "/=", "%=", "&=", "|=", "^=", "<<=", ">>="]
UN_OPS = ["-", "~", "!", "+"]
TYPES = ["int32_t", "uint8_t", "int64_t", "uint16_t", "size4u_t", "size8s_t", "size1s_t", "int", "unsigned"]

RULE2OPS = {
    "multiplicative_expr": ("*", "/", "%"), "additive_expr": ("+", "-"), "shift_expr": ("<<", ">>"),
    "relational_expr": ("<", ">", "<=", ">="), "equality_expr": ("==", "!="), "and_expr": ("&",),
    "exclusive_or_expr": ("^",), "inclusive_or_expr": ("|",), "logical_and_expr": ("&&",), "logical_or_expr": ("||",),
}

# ---- atoms: (class, spelling pieces) -> text
REG_CLASSES = "RCPMN"
SRC = "stuvw"
DST = "de"
RW = "xyz"
PAIRS = ["ss", "tt", "uu", "vv", "dd", "xx", "yy"]
ALIASES = ["PC", "USR", "LR", "SP", "FP", "GP", "LC0", "SA0", "UGP", "CS0", "M0", "UPCYCLE", "FRAMEKEY", "LC1"]
IMMS = "rRsSuUmn"
IDENTS = ["tmp", "EA", "i", "j", "foo1", "cnt_t", "len_t", "my_int32_t", "OutV", "PutV", "RstV", "NutN", "RuvV", "MsuV", "RtsN", "CvwV", "a", "b", "x1", "RsVx", "Rs", "siVx", "xRsV", "P", "R", "PuNx", "HEX_REG", "R3x",
          "width", "_t", "N", "sV", "iV", "Rdd", "V", "RsN_", "uiv",
          # identifiers that merely start (or end) like a keyword or a built-in terminal
          "done", "format", "iface", "breakpoint", "elsewhere", "ifx", "fort", "int_x", "returned", "doit", "switcher",
          "whileloop", "casex", "gotox", "sizeofx", "unsignedx", "voidp", "autoinc", "JUMPx", "mem_load", "NOPx", "constx", "forif",
          # one letter away from an immediate / register spelling
          "MiV", "NiV", "xiV", "TiV", "aiV", "RsX", "RaV", "PfV", "XsV", "RsVV", "riv", "SIV"]
NUMS = [("0", None), ("1", None), ("7", "U"), ("0x1f", None), ("0x10", "ULL"), ("3", "LL"), ("9", "u"), ("0xffffffff", "U"),
        ("12", "ull"), ("0xAB", None), ("100", "ll"), ("0x0", None)]


def atom_text(a) -> str:
    k = a[0]
    if k == "reg":
        return a[1] + a[2] + "V"
    if k == "newreg":
        return a[1] + a[2] + "N"
    if k == "explicit":
        return a[1] + ("_NEW" if a[2] else "")
    if k == "alias":
        return "HEX_REG_ALIAS_" + a[1] + ("_NEW" if a[2] else "")
    if k == "imm":
        return a[1] + "iV"
    if k == "id":
        return a[1]
    if k == "num":
        return a[1] + (a[2] or "")
    raise ValueError(a)


class CGen:
    def __init__(self, ch: Chooser, avoid=()):
        self.ch = ch
        self.avoid = set(avoid)     # names of known-finding input classes to steer clear of
        self.paren_postfix = False  # print every postfix ++/-- as (x++): steers clear of known finding F10

    # ------------------------------------------------------------------ generation
    def atom(self):
        ch = self.ch
        k = ch.weighted([("reg", 8), ("pair", 2), ("newreg", 2), ("explicit", 2), ("alias", 2), ("imm", 3), ("id", 5), ("num", 5)], "atom")
        if k == "reg":
            return ("atom", ("reg", ch.choice(REG_CLASSES, "rc"), ch.choice(SRC + DST + RW, "rl")))
        if k == "pair":
            return ("atom", ("reg", ch.choice("RC", "rc"), ch.choice(PAIRS, "rp")))
        if k == "newreg":
            return ("atom", ("newreg", ch.choice("PNR", "nc"), ch.choice(SRC, "nl")))
        if k == "explicit":
            name = ch.choice(["R31", "R0", "P0", "P1", "P2", "P3", "C12", "R30", "M1", "R1:0", "P3:0", "R13", "G3"], "ex")
            return ("atom", ("explicit", name, ch.chance(1, 3, "exnew")))
        if k == "alias":
            return ("atom", ("alias", ch.choice(ALIASES, "al"), ch.chance(1, 3, "alnew")))
        if k == "imm":
            return ("atom", ("imm", ch.choice(IMMS, "im")))
        if k == "id":
            return ("atom", ("id", ch.choice(IDENTS, "id")))
        n = ch.choice(NUMS, "num")
        return ("atom", ("num", n[0], n[1]))

    def lvalue(self):
        ch = self.ch
        k = ch.weighted([("reg", 5), ("id", 4), ("explicit", 1), ("alias", 1)], "lv")
        if k == "reg":
            return ("atom", ("reg", ch.choice("RPC", "rc"), ch.choice(DST + RW + "dd", "rl") if False else ch.choice(list(DST + RW) + ["dd", "xx"], "rl")))
        if k == "id":
            return ("atom", ("id", ch.choice(["tmp", "EA", "a", "b", "x1", "width"], "id")))
        if k == "explicit":
            return ("atom", ("explicit", ch.choice(["P0", "P1", "R31", "P3"], "ex"), False))
        return ("atom", ("alias", ch.choice(["LR", "USR", "LC0", "SA0"], "al"), False))

    def expr(self, d):
        ch = self.ch
        if d <= 0 or ch.chance(1, 5, "leaf"):
            return self.atom()
        k = ch.weighted([("bin", 12), ("un", 3), ("cast", 2), ("cond", 2), ("post", 1), ("call", 1), ("macro", 1), ("load", 1),
                         ("stmtexpr", 1), ("sizeoft", 1), ("comma", 1)], "ek")
        if k == "sizeoft":
            return ("sizeoft", ch.choice(TYPES, "sty"))
        if k == "comma":
            e = ("comma", self.expr(d - 1), self.expr(d - 1))
            if ch.chance(1, 2, "comma3"):
                e = ("comma", e, self.expr(d - 1))
            return e
        if k == "bin":
            return ("bin", ch.choice(BIN_OPS, "bop"), self.expr(d - 1), self.expr(d - 1))
        if k == "un":
            if ch.chance(1, 6, "prefix"):
                return ("un", ch.choice(["++", "--"], "preop"), ("atom", ("id", ch.choice(["tmp", "a", "i", "x1"], "preid"))))
            return ("un", ch.choice(UN_OPS, "uop"), self.expr(d - 1))
        if k == "cast":
            return ("cast", ch.choice(TYPES, "ty"), self.expr(d - 1))
        if k == "cond":
            return ("cond", self.expr(d - 1), self.expr(d - 1), self.expr(d - 1))
        if k == "post":
            return ("post", ch.choice(["++", "--"], "pop"), ("atom", ("id", ch.choice(["tmp", "a", "i", "x1"], "pid"))))
        if k == "call":
            return ("call", ch.choice(["clz32", "foo", "revbit32", "fcirc_add", "sizeof_x"], "fn"),
                    [self.expr(d - 1) for _ in range(ch.randint(1, 3, "nargs"))])
        if k == "macro":
            return ("macro", ch.choice(["extract32", "sextract64", "deposit32", "bswap32", "REGFIELD", "fUNFLOAT"], "mn"),
                    [self.expr(d - 1) for _ in range(ch.randint(1, 3, "nargs"))])
        if k == "load":
            return ("load", ch.choice("su", "ls"), ch.choice(["8", "16", "32", "64"], "lw"), self.expr(d - 1))
        return ("stmtexpr", [self.simple_stmt(d - 1) for _ in range(ch.randint(0, 2, "sen"))], self.expr(d - 1))

    def assignment(self, d):
        ch = self.ch
        rhs = self.assignment(d - 1) if d > 0 and ch.chance(1, 6, "chain") else self.expr(d)
        return ("assign", ch.choice(ASSIGN_OPS, "aop"), self.lvalue(), rhs)

    def simple_stmt(self, d, allow_decl=True):
        ch = self.ch
        k = ch.weighted([("assign", 8), ("decl", 3 if allow_decl else 0), ("post", 1), ("return", 1)], "ss")
        if k == "return":
            return ("return", self.expr(d))
        if k == "assign":
            return ("expr", self.assignment(d))
        if k == "decl":
            if ch.chance(1, 8, "declp"):
                return ("declp", ch.choice(["int32_t", "uint8_t", "size4u_t"], "dty"), ch.choice(["p", "q", "v1"], "dn"))
            if ch.chance(1, 5, "decln"):
                # a declarator list: every declarator with or without initialiser
                names = ch.shuffle(["v1", "v2", "lx", "tmp2"], "dnames")[:ch.randint(2, 3, "ndecl")]
                return ("decln", ch.choice(["int32_t", "uint64_t", "int8_t", "size4u_t", "int"], "dty"),
                        [[n, self.expr(max(0, d - 1)) if ch.chance(2, 3, "dinit") else None] for n in names])
            return ("decl", ch.choice(["int32_t", "uint64_t", "int8_t", "size4u_t", "int"], "dty"),
                    ch.choice(["v1", "v2", "lx", "tmp2"], "dn"), self.expr(d) if ch.chance(3, 4, "dinit") else None)
        return ("expr", ("post", ch.choice(["++", "--"], "pop"), ("atom", ("id", ch.choice(["tmp", "a", "i"], "pid")))))

    def stmt(self, d, in_block=False):
        """A C *statement*; declarations are block items and only generated directly inside blocks."""
        ch = self.ch
        if d <= 0:
            return self.simple_stmt(1, in_block)
        k = ch.weighted([("simple", 8), ("if", 4), ("ifelse", 4), ("block", 3), ("for", 2), ("store", 1), ("jump", 1), ("label", 1)], "sk")
        if k == "label":
            return ("label", ch.choice(["lbl", "out", "again", "l1"], "lname"), self.stmt(d - 1))
        if k == "simple":
            return self.simple_stmt(2, in_block)
        if k == "if":
            return ("if", self.expr(1), self.stmt(d - 1), None)
        if k == "ifelse":
            return ("if", self.expr(1), self.stmt(d - 1), self.stmt(d - 1))
        if k == "block":
            return ("block", [self.stmt(d - 1, True) for _ in range(ch.randint(2, 3, "bn"))])
        if k == "for":
            it = ch.choice(["i", "j", "k"], "it")
            init = ("expr", ("assign", "=", ("atom", ("id", it)), ("atom", ("num", "0", None))))
            step = ch.choice([("post", "++", ("atom", ("id", it))), ("assign", "+=", ("atom", ("id", it)), ("atom", ("num", "1", None))),
                              ("comma", ("comma", ("post", "++", ("atom", ("id", it))), ("post", "++", ("atom", ("id", "tmp")))),
                               ("post", "--", ("atom", ("id", "a"))))], "step")
            return ("for", init, self.expr(1), step, self.stmt(d - 1))
        if k == "store":
            return ("store", ch.choice("su", "ss"), ch.choice(["8", "16", "32", "64"], "sw"), self.expr(1), self.expr(1))
        return ("block", [("jump", self.expr(1)), self.simple_stmt(1, False)])

    # ------------------------------------------------------------------ printing (minimal parentheses)
    def sp(self):
        return self.ch.choice(["", " ", " ", "  "], "sp")

    def prec(self, n):
        k = n[0]
        if k in ("atom", "call", "macro", "load", "stmtexpr"):
            return P_ATOM
        if k == "post":
            return P_POSTFIX
        if k in ("un", "cast"):
            return P_UNARY
        if k == "bin":
            return BIN[n[1]]
        if k == "cond":
            return P_COND
        if k == "assign":
            return P_ASSIGN
        if k == "sizeoft":
            return P_UNARY
        if k == "comma":
            return P_COMMA
        raise ValueError(n)

    def show(self, n):
        k = n[0]
        if k == "atom":
            return atom_text(n[1])

        def par(c, need):
            s = self.show(c)
            return "(" + self.sp() + s + self.sp() + ")" if need else s

        if k == "bin":
            op = n[1]
            p = BIN[op]
            # (a plain identifier in redundant parentheses in front of + - * & is still an operand, never a cast)
            l = par(n[2], self.prec(n[2]) < p or (n[2][0] == "atom" and n[2][1][0] == "id" and self.ch.draw(5, "id-parens") == 0))
            r = par(n[3], self.prec(n[3]) <= p)
            a, b = self.sp(), self.sp()
            # token pasting hazards: '+ +x', '- -x', '& &x', 'x++ + y', '< <', '/ *'
            if r[:1] in "+-&" and r[:1] == op[-1:]:
                b = " "
            if l[-1:] in "+-&|<>=" and l[-1:] == op[:1]:
                a = " "
            if op in ("+", "-") and r[:2] in ("++", "--"):
                b = " "
            if op == "&" and (l.endswith("&") or r.startswith("&")):
                a = b = " "
            if op == "/" and r.startswith("*"):
                b = " "
            if op in ("<", ">") and r[:1] in "<>=":
                b = " "
            if op in ("<", ">", "<<", ">>") and r[:1] in "<>=":
                b = " "
            return l + a + op + b + r
        if k == "un":
            c = par(n[2], self.prec(n[2]) < P_UNARY)
            s = self.sp()
            if c[:1] == n[1][-1:] or (n[1][-1:] in "+-" and c[:1] in "+-"):
                s = " "
            return n[1] + s + c
        if k == "cast":
            return "(" + self.sp() + n[1] + self.sp() + ")" + self.sp() + par(n[2], self.prec(n[2]) < P_UNARY)
        if k == "cond":
            c = par(n[1], self.prec(n[1]) <= P_COND)
            t = self.show(n[2])                              # middle operand is an `expression`
            e = par(n[3], self.prec(n[3]) < P_COND)
            return c + self.sp() + "?" + self.sp() + t + self.sp() + ":" + self.sp() + e
        if k == "assign":
            lhs = self.show(n[2])
            rhs = par(n[3], self.prec(n[3]) < P_ASSIGN)
            a, b = self.sp(), self.sp()
            if rhs[:1] == "=":
                b = " "
            return lhs + a + n[1] + b + rhs
        if k == "post":
            body = par(n[2], self.prec(n[2]) < P_POSTFIX) + n[1]
            return "(" + body + ")" if self.paren_postfix else body
        if k in ("call", "macro"):
            return n[1] + self.sp() + "(" + (", ".join(par(a, self.prec(a) < P_ASSIGN) for a in n[2])) + ")"
        if k == "load":
            return f"mem_load_{n[1]}{n[2]}(" + par(n[3], self.prec(n[3]) < P_ASSIGN) + ")"
        if k == "sizeoft":
            return "sizeof" + self.sp() + "(" + self.sp() + n[1] + self.sp() + ")"
        if k == "comma":
            return par(n[1], False) + self.sp() + "," + self.sp() + par(n[2], self.prec(n[2]) < P_ASSIGN)
        if k == "stmtexpr":
            return "({ " + " ".join(self.show_stmt(s) for s in n[1]) + " " + self.show(n[2]) + "; })"
        raise ValueError(n)

    @staticmethod
    def ends_with_open_if(s):
        if s[0] == "if":
            return s[3] is None or CGen.ends_with_open_if(s[3])
        if s[0] == "for":
            return CGen.ends_with_open_if(s[4])
        if s[0] == "label":
            return CGen.ends_with_open_if(s[2])
        return False

    def show_stmt(self, s, brace_all_ifs=False):
        k = s[0]
        if k == "expr":
            body = self.show(s[1])
            if self.ch.draw(4, "stmt-parens") == 0:
                body = "(" + self.sp() + body + self.sp() + ")"        # a parenthesised expression statement is the same statement
            return body + self.sp() + ";"
        if k == "declp":
            return f"{s[1]}{self.sp()}*{self.sp()}{s[2]}{self.sp()};"
        if k == "decln":
            parts = []
            for n, init in s[2]:
                if init is None:
                    parts.append(n)
                    continue
                t = self.show(init)
                if self.prec(init) < P_ASSIGN:
                    t = "(" + t + ")"
                parts.append(f"{n}{self.sp()}={' ' if t[:1] == '=' else self.sp()}{t}")
            return f"{s[1]} " + (self.sp() + "," + self.sp()).join(parts) + self.sp() + ";"
        if k == "decl":
            if s[3] is None:
                if self.ch.draw(4, "decl-parens") == 0:
                    return f"{s[1]} ({self.sp()}{s[2]}{self.sp()});"
                return f"{s[1]} {s[2]};"
            init = self.show(s[3])
            if self.prec(s[3]) < P_ASSIGN:
                init = "(" + init + ")"
            return f"{s[1]} {s[2]}{self.sp()}={' ' if init[:1] == '=' else self.sp()}{init};"
        if k == "if":
            t = self.show_stmt(s[2], brace_all_ifs)
            head = "if" + self.sp() + "(" + self.sp() + self.show(s[1]) + self.sp() + ")" + " "
            if s[3] is not None:
                if self.ends_with_open_if(s[2]) or (brace_all_ifs and s[2][0] in ("if", "for")):
                    t = "{ " + t + " }"                       # the only braces C *requires*: keep the else off the inner if
                return head + t + " else " + self.show_stmt(s[3], brace_all_ifs)
            if brace_all_ifs and s[2][0] in ("if", "for"):
                t = "{ " + t + " }"
            return head + t
        if k == "block":
            return "{ " + " ".join(self.show_stmt(x, brace_all_ifs) for x in s[1]) + " }"
        if k == "for":
            step = self.show(s[3])
            return (f"for{self.sp()}({self.show_stmt(s[1])} {self.show(s[2])}; {step}) "
                    + self.show_stmt(s[4], brace_all_ifs))
        if k == "store":
            def arg(e):
                t = self.show(e)
                return "(" + t + ")" if self.prec(e) < P_ASSIGN else t
            return f"mem_store_{s[1]}{s[2]}({arg(s[3])}, {arg(s[4])});"
        if k == "jump":
            return "JUMP(" + self.show(s[1]) + ");"
        if k == "label":
            return s[1] + self.sp() + ":" + " " + self.show_stmt(s[2], brace_all_ifs)
        if k == "return":
            e = self.show(s[1])
            return "return" + (self.sp() if e[:1] == "(" else " ") + e + self.sp() + ";"
        raise ValueError(s)


# ---------------------------------------------------------------------- expected normal form

def norm_stmt(s):
    """What the lark tree can express: single-item blocks are transparent."""
    k = s[0]
    if k == "block":
        items = []
        for x in s[1]:
            items.append(norm_stmt(x))
        return items[0] if len(items) == 1 else ("block", items)
    if k == "if":
        return ("if", s[1], norm_stmt(s[2]), norm_stmt(s[3]) if s[3] is not None else None)
    if k == "for":
        return ("for", norm_stmt(s[1]), s[2], s[3], norm_stmt(s[4]))
    if k == "expr":
        return ("expr", norm_expr(s[1]))
    if k == "decln":
        return ("decln", s[1], [[n, norm_expr(i) if i is not None else None] for n, i in s[2]])
    if k == "decl":
        return ("decl", s[1], s[2], norm_expr(s[3]) if s[3] is not None else None)
    if k == "store":
        return ("store", s[1], s[2], norm_expr(s[3]), norm_expr(s[4]))
    if k == "jump":
        return ("jump", norm_expr(s[1]))
    if k == "return":
        return ("return", norm_expr(s[1]))
    if k == "label":
        return ("label", s[1], norm_stmt(s[2]))
    return s


def norm_expr(e):
    k = e[0]
    if k == "stmtexpr":
        return ("stmtexpr", [norm_stmt(x) for x in e[1]], norm_expr(e[2]))
    if k == "atom":
        return e
    return tuple(norm_expr(x) if isinstance(x, tuple) and x and isinstance(x[0], str) and x[0] in _KINDS
                 else ([norm_expr(y) for y in x] if isinstance(x, list) else x) for x in e)


_KINDS = {"atom", "bin", "un", "cast", "cond", "assign", "post", "call", "macro", "load", "stmtexpr", "sizeoft", "comma"}


# ---------------------------------------------------------------------- lark tree (canonical JSON form) -> AST
# canonical form (sim/trees.canon):  ["T", rule, [children]] | ["t", TYPE, value] | None

class ConvError(Exception):
    pass


def _is_tree(c, rule=None):
    return isinstance(c, list) and c and c[0] == "T" and (rule is None or c[1] == rule)


def _tok(c):
    if isinstance(c, list) and c and c[0] == "t":
        return c[2]
    raise ConvError(f"token expected, got {c!r}"[:200])


def conv_type(c):
    if not _is_tree(c, "type_specifier"):
        raise ConvError(f"type expected: {c!r}"[:200])
    x = c[2][0]
    if isinstance(x, list) and x[0] == "t":
        return x[2]
    if _is_tree(x, "c_int_type"):
        return f"{_tok(x[2][0])}{_tok(x[2][1])}_t"
    if _is_tree(x, "c_size_type"):
        return f"size{_tok(x[2][0])}{_tok(x[2][1])}_t"
    raise ConvError(f"type: {x!r}"[:200])


def conv_expr(c):
    if not _is_tree(c):
        raise ConvError(f"expression tree expected: {c!r}"[:200])
    d, ch = c[1], c[2]
    if d == "reg":
        return ("atom", ("reg", _tok(ch[0]), _tok(ch[1])))
    if d == "new_reg":
        return ("atom", ("newreg", _tok(ch[0]), _tok(ch[1])))
    if d == "explicit_reg":
        return ("atom", ("explicit", _tok(ch[0]), ch[1] is not None))
    if d == "reg_alias":
        return ("atom", ("alias", _tok(ch[0]), ch[1] is not None))
    if d == "imm":
        return ("atom", ("imm", _tok(ch[0])))
    if d == "identifier":
        return ("atom", ("id", _tok(ch[0])))
    if d == "number":
        return ("atom", ("num", _tok(ch[0]), _tok(ch[1]) if ch[1] is not None else None))
    if d in RULE2OPS:
        op = _tok(ch[1])
        if op not in RULE2OPS[d]:
            raise ConvError(f"operator {op} under rule {d}")
        return ("bin", op, conv_expr(ch[0]), conv_expr(ch[2]))
    if d == "unary_expr":
        if isinstance(ch[0], list) and ch[0][0] == "t" and ch[0][1] == "SIZEOF" and _is_tree(ch[1], "type_specifier"):
            return ("sizeoft", conv_type(ch[1]))
        return ("un", _tok(ch[0]), conv_expr(ch[1]))       # the token value is compared verbatim
    if d == "expr" and len(ch) == 2:
        return ("comma", conv_expr(ch[0]), conv_expr(ch[1]))
    if d == "cast_expr":
        return ("cast", conv_type(ch[0]), conv_expr(ch[1]))
    if d == "conditional_expr":
        return ("cond", conv_expr(ch[0]), conv_expr(ch[1]), conv_expr(ch[2]))
    if d == "assignment_expr":
        return ("assign", _tok(ch[1]), conv_expr(ch[0]), conv_expr(ch[2]))
    if d == "postfix_expr":
        return ("post", _tok(ch[1]), conv_expr(ch[0]))
    if d == "sub_routine":
        name = conv_expr(ch[0])
        args = [conv_expr(a) for a in ch[1:] if a is not None]
        return ("call", name[1][1], args)
    if d == "macro_expr":
        return ("macro", _tok(ch[0]), [conv_expr(a) for a in ch[1:] if a is not None])
    if d == "mem_load":
        return ("load", _tok(ch[1]), _tok(ch[2]), conv_expr(ch[3]))
    if d == "gcc_extended_expr":
        # children: [block_item_list|block_item|None] expr
        items = flat_items(ch[0]) if ch[0] is not None else []
        return ("stmtexpr", [conv_stmt(x) for x in items], conv_expr(ch[1]))
    raise ConvError(f"unexpected expression rule {d}")


def flat_items(c):
    if _is_tree(c, "block_item_list"):
        out = []
        for x in c[2]:
            out += flat_items(x)
        return out
    return [c]


def conv_stmt(c):
    if _is_tree(c, "block_item"):
        return conv_stmt(c[2][0])
    if not _is_tree(c):
        raise ConvError(f"statement tree expected: {c!r}"[:200])
    d, ch = c[1], c[2]
    if d == "block_item_list":
        return ("block", [conv_stmt(x) for x in flat_items(c)])
    if d == "selection_stmt":
        if _tok(ch[0]) != "if":
            raise ConvError("selection_stmt without if")
        els = conv_stmt(ch[4]) if len(ch) > 3 else None
        return ("if", conv_expr(ch[1]), conv_stmt(ch[2]), els)
    if d == "iteration_stmt":
        if _tok(ch[0]) != "for" or len(ch) != 5:
            raise ConvError("iteration_stmt shape")
        return ("for", conv_stmt(ch[1]), conv_expr(ch[2]), conv_expr(ch[3]), conv_stmt(ch[4]))
    if d == "declaration":
        ty = conv_type(ch[0])
        dd = ch[1]
        if _is_tree(dd, "declarator") and len(dd[2]) == 2 and _is_tree(dd[2][0], "pointer") and not dd[2][0][2]:
            return ("declp", ty, _tok(dd[2][1]))
        if _is_tree(dd, "init_declarator_list"):
            items = []

            def walk(x):
                if _is_tree(x, "init_declarator_list"):
                    for y in x[2]:
                        walk(y)
                elif _is_tree(x, "init_declarator"):
                    items.append([_tok(x[2][0]), conv_expr(x[2][1])])
                else:
                    items.append([_tok(x), None])
            walk(dd)
            return ("decln", ty, items)
        if _is_tree(dd, "init_declarator"):
            return ("decl", ty, _tok(dd[2][0]), conv_expr(dd[2][1]))
        return ("decl", ty, _tok(dd), None)
    if d == "mem_store":
        return ("store", _tok(ch[1]), _tok(ch[2]), conv_expr(ch[3]), conv_expr(ch[4]))
    if d == "jump_stmt":
        j = ch[0]
        if _is_tree(j, "jump"):
            return ("jump", conv_expr(j[2][1]))
        if isinstance(j, list) and j[0] == "t" and j[1] == "RETURN" and len(ch) == 2:
            return ("return", conv_expr(ch[1]))
        raise ConvError("jump_stmt shape")
    if d == "labeled_stmt":
        if len(ch) != 2 or not (isinstance(ch[0], list) and ch[0][0] == "t" and ch[0][1] == "IDENTIFIER"):
            raise ConvError("labeled_stmt shape")
        return ("label", _tok(ch[0]), conv_stmt(ch[1]))
    if d == "expr_stmt":
        return ("empty",)
    return ("expr", conv_expr(c))


def conv_body(canon_tree):
    """fbody -> normalised statement (single-item block transparent); drops the empty statement the
    grammar produces for the `;` after JUMP(...)."""
    if not _is_tree(canon_tree, "fbody"):
        raise ConvError("fbody expected")
    items = []
    for c in canon_tree[2]:
        items += flat_items(c)
    st = [conv_stmt(x) for x in items]
    return strip_empty(("block", st))


def strip_empty(s):
    k = s[0]
    if k == "block":
        items = [strip_empty(x) for x in s[1]]
        out = []
        for i, x in enumerate(items):
            if x == ("empty",) and i > 0 and items[i - 1][0] == "jump":
                continue
            out.append(x)
        return out[0] if len(out) == 1 else ("block", out)
    if k == "if":
        return ("if", s[1], strip_empty(s[2]), strip_empty(s[3]) if s[3] is not None else None)
    if k == "for":
        return ("for", strip_empty(s[1]), s[2], s[3], strip_empty(s[4]))
    if k == "expr":
        return ("expr", strip_expr(s[1]))
    if k == "decln":
        return ("decln", s[1], [[n, strip_expr(i) if i is not None else None] for n, i in s[2]])
    if k == "decl":
        return ("decl", s[1], s[2], strip_expr(s[3]) if s[3] is not None else None)
    if k == "store":
        return ("store", s[1], s[2], strip_expr(s[3]), strip_expr(s[4]))
    if k == "jump":
        return ("jump", strip_expr(s[1]))
    if k == "return":
        return ("return", strip_expr(s[1]))
    if k == "label":
        return ("label", s[1], strip_empty(s[2]))
    return s


def strip_expr(e):
    if e[0] == "stmtexpr":
        inner = strip_empty(("block", list(e[1]))) if e[1] else None
        if inner is None:
            items = []
        elif inner[0] == "block":
            items = inner[1]
        else:
            items = [inner]
        return ("stmtexpr", items, strip_expr(e[2]))
    if e[0] == "atom":
        return e
    return tuple(strip_expr(x) if isinstance(x, tuple) and x and x[0] in _KINDS
                 else ([strip_expr(y) for y in x] if isinstance(x, list) else x) for x in e)


def to_jsonable(x):
    if isinstance(x, tuple):
        return [to_jsonable(y) for y in x]
    if isinstance(x, list):
        return [to_jsonable(y) for y in x]
    return x


# ---------------------------------------------------------------------- exhaustive operator pairs

def whitespace_twins():
    """Pairs of different ASTs whose texts are equal once whitespace is removed (token boundaries matter)."""
    a, b = ("atom", ("id", "a")), ("atom", ("id", "b"))
    out = []
    for inc, op in (("++", "+"), ("--", "-")):
        out.append((("bin", op, ("post", inc, a), b), ("bin", op, a, ("un", inc, b))))
    return out


def blank_sensitive_cases():
    """Expressions in which removing or inserting a blank changes the token sequence: an explicit register in
    front of ':' (R1 : 0 vs the register pair R1:0), postfix/prefix ++ and --, shift vs comparison."""
    A = ("atom", ("id", "a"))
    out = []
    for reg in ("R1", "P3", "R31", "C12"):
        for num in ("0", "1", "3", "13"):
            out.append(("cond", A, ("atom", ("explicit", reg, False)), ("atom", ("num", num, None))))
    out.append(("cond", A, ("atom", ("explicit", "R1", True)), ("atom", ("num", "0", None))))
    return out


def paren_ident_cases():
    """A plain identifier whose name looks like a type name, alone in parentheses in front of an operator that is both
    unary and binary: still an operand of the binary operator, never a cast (printed with the parentheses)."""
    R = ("atom", ("reg", "R", "s"))
    out = []
    for name in ("cnt_t", "len_t", "my_int32_t", "carry_t", "uint"):
        for op in ("-", "+", "*", "&"):
            out.append(("bin", op, ("atom", ("id", name)), R))
    return out


def postfix_additive_cases():
    """Postfix ++/-- directly in front of an additive operator of the *other* sign (maximal munch: `i++ - b` is (i++) - b),
    prefix ++/-- behind a cast."""
    i, b, a = (("atom", ("id", n)) for n in ("i", "b", "a"))
    out = []
    for po, bo in (("++", "-"), ("--", "+"), ("++", "+"), ("--", "-")):
        out.append(("bin", bo, ("post", po, i), b))
        out.append(("bin", bo, ("post", po, i), ("bin", "/", b, a)))
        out.append(("bin", bo, ("post", po, i), ("un", "-", b)))
    # a cast of a unary +/- behind a binary +/-: the type name is never a parenthesised identifier
    for bo, u in (("+", "+"), ("-", "-"), ("+", "-"), ("-", "+")):
        for t in ("int64_t", "size8s_t", "int", "unsigned", "uint8_t"):
            out.append(("bin", bo, a, ("cast", t, ("un", u, b))))
    for pre in ("++", "--"):
        out.append(("cast", "int", ("un", pre, a)))
        out.append(("cast", "int32_t", ("un", pre, a)))
    return out


def stmt_hazard_cases():
    a, b, c, p_ = (("atom", ("id", n)) for n in ("a", "b", "c", "p"))
    R = ("atom", ("reg", "R", "s"))
    out = []
    for u in ("-", "+"):
        tail = ("expr", ("un", u, b))
        out.append(("block", [("block", [("expr", a)]), tail]))
        out.append(("block", [("if", c, ("block", [("expr", ("assign", "=", a, R))]), None), tail]))
        out.append(("block", [("block", [("expr", a), ("expr", b)]), ("expr", ("bin", "*", ("un", u, b), c))]))
    for op in ("*", "-", "+", "&"):
        for t in ("int32_t", "size8u_t", "uint8_t"):
            out.append(("expr", ("assign", "=", a, ("bin", op, ("sizeoft", t), ("atom", ("num", "8", None))))))
    out.append(("expr", ("assign", "=", a, ("call", "foo", [("comma", b, c)]))))
    out.append(("expr", ("assign", "=", a, ("call", "clz32", [("comma", ("comma", a, b), c)]))))
    out.append(("expr", ("assign", "=", a, ("call", "clz32", [("stmtexpr", [("expr", ("assign", "=", b, R))], b)]))))
    out.append(("expr", ("call", "foo", [("comma", b, c)])))
    return out


def operator_pair_cases():
    """All ordered pairs of binary operators at equal or adjacent precedence levels, in both nestings."""
    A = ("atom", ("reg", "R", "s"))
    B = ("atom", ("id", "tmp"))
    C = ("atom", ("imm", "u"))
    levels = sorted(set(BIN.values()))
    out = []
    for o1 in BIN_OPS:
        for o2 in BIN_OPS:
            if abs(levels.index(BIN[o1]) - levels.index(BIN[o2])) <= 1:
                out.append(("bin", o1, ("bin", o2, A, B), C))
                out.append(("bin", o1, A, ("bin", o2, B, C)))
    for u in UN_OPS:
        for o in BIN_OPS:
            out.append(("bin", o, ("un", u, A), B))
            out.append(("un", u, ("bin", o, A, B)))
            out.append(("bin", o, A, ("un", u, B)))
    for o in BIN_OPS:
        out.append(("cond", ("bin", o, A, B), B, C))
        out.append(("cond", A, ("bin", o, A, B), ("bin", o, B, C)))
        out.append(("bin", o, ("cond", A, B, C), B))
        out.append(("cast", "int32_t", ("bin", o, A, B)))
        out.append(("bin", o, ("cast", "uint8_t", A), B))
    for u in UN_OPS:
        for t in ("int32_t", "uint8_t", "size8s_t"):
            out.append(("un", u, ("cast", t, A)))
            out.append(("cast", t, ("un", u, A)))
            out.append(("un", u, ("cast", t, ("un", "-", ("atom", ("num", "1", None))))))
    out.append(("cond", A, B, ("cond", B, C, A)))
    out.append(("cond", ("cond", A, B, C), B, C))
    out.append(("cond", A, ("cond", A, B, C), C))
    return out
