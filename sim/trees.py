"""Canonical, comparable form of lark trees (token *types* included: Token.__eq__ ignores them)."""
from __future__ import annotations

import hashlib
import json

from lark import Token, Tree


def canon(t):
    if isinstance(t, Tree):
        return ["T", str(t.data), [canon(c) for c in t.children]]
    if isinstance(t, Token):
        return ["t", str(t.type), str(t)]
    if t is None:
        return None
    if isinstance(t, str):
        return ["s", t]
    return ["?", type(t).__name__, repr(t)]


def digest(t) -> str:
    return hashlib.sha256(json.dumps(canon(t)).encode()).hexdigest()[:24]


def sexpr(t, depth=0) -> str:
    """Compact human-readable form for reports."""
    if isinstance(t, Tree):
        return "(" + str(t.data) + "".join(" " + sexpr(c) for c in t.children) + ")"
    if isinstance(t, Token):
        return f"{t.type}:{str(t)!r}"
    return repr(t)
