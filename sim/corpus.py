"""Behaviours of the working tree and a parse-tree cache keyed on the grammar text.

The cache only saves Earley time (0.6 s per behaviour on average).  It is produced by the real
lark with the working tree's grammar, exactly as `Compiler.set_lark_parser` / `parse_single`
construct it; a changed grammar (or lark version) invalidates every entry.
"""
from __future__ import annotations

import hashlib
import os
import pickle
import re
import sys
from concurrent.futures import ProcessPoolExecutor
from multiprocessing import get_context

import lark

from .core import VERIF_DIR, repo_dir

CACHE_DIR = os.path.join(VERIF_DIR, ".cache")


def grammar_text() -> str:
    with open(os.path.join(repo_dir(), "Resources", "Hexagon", "grammar.lark")) as f:
        return "".join(f.readlines())


def grammar_key(g: str | None = None) -> str:
    g = grammar_text() if g is None else g
    return hashlib.sha256((lark.__version__ + "\x00" + g).encode()).hexdigest()[:20]


def split_compound(beh: str):
    m = re.match(r"\{.*__COMPOUND_PART1__(\{.+})__COMPOUND_PART1__(.*)}$", beh)
    return [m.group(1), "{" + m.group(2) + "}"]


def load_behaviours() -> dict[str, list[str]]:
    """name -> list of behaviour parts, read straight from the bundled resolved shortcode
    (harness-owned reader: engine workloads must not depend on the loader under test)."""
    out: dict[str, list[str]] = {}
    path = os.path.join(repo_dir(), "Resources", "Hexagon", "Preprocessor", "shortcode_resolved.h")
    with open(path) as f:
        for line in f:
            if not line.startswith("insn("):
                continue
            m = re.search(r"insn\((\w+), (.*)\)$", line.rstrip("\n"))
            if not m:
                continue
            name, beh = m.group(1), m.group(2)
            out[name] = split_compound(beh) if "__COMPOUND_PART1__" in beh else [beh]
    return out


_PARSER = None


def _parse_one(args):
    global _PARSER
    g, text = args
    if _PARSER is None or _PARSER[0] != g:
        _PARSER = (g, lark.Lark(g, start="fbody", parser="earley"))
    try:
        return text, ("ok", _PARSER[1].parse(text))
    except Exception as e:  # noqa: BLE001
        return text, ("exc", type(e).__name__)


class TreeCache:
    def __init__(self):
        self.g = grammar_text()
        self.key = grammar_key(self.g)
        self.path = os.path.join(CACHE_DIR, f"trees-{self.key}.pkl")
        self.data: dict[str, tuple] = {}
        if os.path.exists(self.path):
            try:
                with open(self.path, "rb") as f:
                    self.data = pickle.load(f)
            except Exception:
                self.data = {}

    def get(self, texts, workers: int = 16, save: bool = True, quiet: bool = True):
        missing = sorted({t for t in texts if t not in self.data})
        if missing:
            if not quiet:
                print(f"[corpus] parsing {len(missing)} behaviours with {workers} processes", file=sys.stderr)
            if len(missing) <= 2 or workers <= 1:
                for t in missing:
                    self.data[t] = _parse_one((self.g, t))[1]
            else:
                with ProcessPoolExecutor(max_workers=workers, mp_context=get_context("fork")) as ex:
                    for text, res in ex.map(_parse_one, [(self.g, t) for t in missing], chunksize=4):
                        self.data[text] = res
            if save:
                self.save()
        return {t: self.data[t] for t in texts}

    def save(self):
        os.makedirs(CACHE_DIR, exist_ok=True)
        tmp = self.path + ".tmp%d" % os.getpid()
        with open(tmp, "wb") as f:
            pickle.dump(self.data, f, protocol=pickle.HIGHEST_PROTOCOL)
        os.replace(tmp, self.path)
        # stale caches of other grammars are dropped (disk is limited); the ten newest are kept so that
        # a run against a scratch tree with another grammar does not evict the cache of the main tree
        files = [fn for fn in os.listdir(CACHE_DIR) if fn.startswith("trees-") and ".tmp" not in fn]
        files.sort(key=lambda fn: os.path.getmtime(os.path.join(CACHE_DIR, fn)), reverse=True)
        for fn in files[10:]:
            if fn != os.path.basename(self.path):
                try:
                    os.unlink(os.path.join(CACHE_DIR, fn))
                except OSError:
                    pass


def build_full_cache(workers: int = 16):
    beh = load_behaviours()
    texts = [p for parts in beh.values() for p in parts]
    tc = TreeCache()
    tc.get(texts, workers=workers, quiet=False)
    ok = sum(1 for t in texts if tc.data[t][0] == "ok")
    return len(texts), ok


# Short valid behaviours (45-90 ms of Earley time each) used where the *content* of a parse is
# not what is being judged.
MICRO = [
    "{ RdV = RsV; }",
    "{ RdV = RsV + RtV; }",
    "{ RdV = siV; }",
    "{ RxV = RxV + 1; }",
    "{ PdV = 0xff; }",
    "{ RdV = RsV & RtV; }",
    "{ RddV = RssV; }",
    "{ RdV = -RsV; }",
    "{ if (PuV) { RdV = RsV; } }",
    "{ RdV = (RsV << 1); }",
    "{ EA = RsV + siV; RdV = EA; }",
    "{ RdV = RsV ? 1 : 0; }",
    "{ JUMP(riV); }",
    "{ RdV = ~RsV; }",
    "{ RdV = RsV ^ uiV; }",
    "{}",
    "{ ; }",
]
