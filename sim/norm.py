"""C14 normaliser: exactly the latitude the property grants.

 * whole-line // comments and blank lines are dropped (comment text is not compared)
 * every C identifier *declared in the body* is alpha-renamed to @<rank of declaration>
   (renaming locally declared C variables consistently is semantics preserving)
 * every RzIL variable name (first argument of SETL/VARL/LET/VARLP/...) that looks compiler
   generated - ends in digits, does not occur as a word in the source behaviour and is not one
   of ret_val/jump_flag/jump_target - is renamed by order of first occurrence, keeping its
   non-digit stem.  Not tied to the spelling "h_tmp".
"""
from __future__ import annotations

import re

DECL_RE = re.compile(r"^(?:const\s+)?(?:RzILOpPure|RzILOpEffect|HexOp|HexInsn|HexPkt)\s*\*?\s*(\w+)\s*=", re.M)
ILNAME_RE = re.compile(r"\b(SETL|VARL|VARLP|LET|SETG|VARG)\(\"(\w+)\"")
SPECIAL = {"ret_val", "jump_flag", "jump_target"}
WORD = re.compile(r"[A-Za-z_]\w*")


def strip_comments(code: str) -> list[str]:
    out = []
    for line in code.split("\n"):
        s = line.strip()
        if not s or s.startswith("//"):
            continue
        out.append(s)
    return out


def normalise(code: str, source: str = "") -> str:
    text = "\n".join(strip_comments(code))
    # --- C identifiers declared in the body
    ren: dict[str, str] = {}
    for m in DECL_RE.finditer(text):
        name = m.group(1)
        if name not in ren:
            ren[name] = f"@{len(ren)}"
    if ren:
        text = WORD.sub(lambda m: ren.get(m.group(0), m.group(0)), text)
    # --- compiler generated IL variable names
    src_words = set(WORD.findall(source))
    il: dict[str, str] = {}
    for m in ILNAME_RE.finditer(text):
        name = m.group(2)
        if name in il or name in SPECIAL or name in src_words:
            continue
        mm = re.match(r"^(.*?)(\d+)$", name)
        if not mm:
            continue
        il[name] = f"{mm.group(1)}%{len(il)}"
    if il:
        text = re.sub(r"\"(\w+)\"", lambda m: '"' + il.get(m.group(1), m.group(1)) + '"', text)
    return text


def first_difference(a: str, b: str) -> dict:
    la, lb = a.split("\n"), b.split("\n")
    for i, (x, y) in enumerate(zip(la, lb)):
        if x != y:
            return {"line": i, "got": x[:300], "want": y[:300]}
    if len(la) != len(lb):
        i = min(len(la), len(lb))
        return {"line": i, "got": (la[i] if i < len(la) else "<end>")[:300], "want": (lb[i] if i < len(lb) else "<end>")[:300],
                "got_lines": len(la), "want_lines": len(lb)}
    return {}
