"""Executes emitted code the way the Rizin plugin would: the C body is parsed into declarations,
the declarations are folded into one RzIL effect term, and the term is interpreted over a machine
state.  A call `hex_f(args)` runs the callee's DEF body the same way with the argument *terms*
spliced in (passing `RzILOpPure *` into the generated C function is call-by-name).

Two namespaces policies:
  flat    the real semantics: one instruction-wide set of IL locals
  scoped  every call instance gets a private namespace for everything it writes except `ret_val`,
          and its arguments are evaluated once, at call time (C's call-by-value, isolated callee)

Any difference between the two in registers, memory, jump state or caller-visible locals is an
isolation violation, independent of how exactly an RzIL operator is modelled.
"""
from __future__ import annotations

import re

TOK = re.compile(r"""\s*(?:
    (?P<num>-?0x[0-9a-fA-F]+|-?\d+)
  | (?P<str>"[^"]*")
  | (?P<chr>'[^']')
  | (?P<id>&?[A-Za-z_]\w*(?:->\w+)?)
  | (?P<p>[(),])
)""", re.X)


# offset, width of the USR fields used by the bundled set/get_usr_field routines (shared by interpreter and reference)
REGFIELDS = {
    "HEX_REG_FIELD_USR_OVF": (0, 1), "HEX_REG_FIELD_USR_FPINVF": (1, 1), "HEX_REG_FIELD_USR_FPDBZF": (2, 1),
    "HEX_REG_FIELD_USR_FPOVFF": (3, 1), "HEX_REG_FIELD_USR_FPUNFF": (4, 1), "HEX_REG_FIELD_USR_FPINPF": (5, 1),
    "HEX_REG_FIELD_USR_LPCFG": (8, 2), "HEX_REG_FIELD_USR_FPRND": (22, 2),
}


class Unsupported(Exception):
    """Emitted text uses something this model does not cover (the run is skipped, not judged)."""


class ILError(Exception):
    """The emitted effect misbehaves at run time (read of an unset local, width mismatch...)."""


def tokenize(s):
    pos, out = 0, []
    while pos < len(s):
        m = TOK.match(s, pos)
        if not m:
            if s[pos:].strip() == "":
                break
            raise Unsupported(f"token error at {s[pos:pos + 40]!r}")
        pos = m.end()
        k = m.lastgroup
        out.append((k, m.group(k)))
    return out


def parse_expr(toks, i=0):
    k, v = toks[i]
    if k == "num":
        return ("num", int(v, 0)), i + 1
    if k == "str":
        return ("str", v[1:-1]), i + 1
    if k == "chr":
        return ("chr", v[1]), i + 1
    if k == "p" and v == "(":
        k2, v2 = toks[i + 1]
        if k2 == "id" and toks[i + 2] == ("p", ")"):       # C cast: (st32) expr
            e, j = parse_expr(toks, i + 3)
            return ("ccast", v2, e), j
        raise Unsupported(f"parenthesised term {toks[i:i + 4]}")
    if k == "id":
        if i + 1 < len(toks) and toks[i + 1] == ("p", "("):
            args = []
            j = i + 2
            if toks[j] == ("p", ")"):
                return ("call", v, args), j + 1
            while True:
                e, j = parse_expr(toks, j)
                args.append(e)
                if toks[j] == ("p", ","):
                    j += 1
                    continue
                if toks[j] != ("p", ")"):
                    raise Unsupported(f"expected ) at {toks[j:j + 3]}")
                return ("call", v, args), j + 1
        return ("var", v), i + 1
    raise Unsupported(f"unexpected token {toks[i:i + 4]}")


DECL = re.compile(r"^(?:const\s+)?(\w+)\s+(\*?)\s*(\w+)\s*=\s*(.*);$")


def parse_body(text):
    """-> (decls [(ctype, is_ptr, name, expr)], return expr)"""
    decls, ret = [], None
    for line in text.split("\n"):
        s = line.strip()
        if not s or s.startswith("//") or s in ("{", "}"):
            continue
        if s.startswith("return "):
            if s == "return NOP();":
                ret = ("call", "NOP", [])
            else:
                ret, _ = parse_expr(tokenize(s[7:-1]))
            continue
        m = DECL.match(s)
        if not m:
            raise Unsupported(f"unparsed line {s[:80]!r}")
        ctype, ptr, name, rhs = m.groups()
        if ctype in ("HexInsn", "HexPkt"):
            continue                                   # hi / pkt prologue of sub-routine bodies
        e, _ = parse_expr(tokenize(rhs))
        decls.append((ctype, ptr == "*", name, e))
    if ret is None:
        raise Unsupported("no return statement")
    return decls, ret


def parse_def(text):
    """sub-routine DEF text -> (param names, param kinds, decls, ret)"""
    head, body = text.split("{", 1)
    m = re.search(r"\((.*)\)\s*$", head.strip())
    params = m.group(1) if m else ""
    names, kinds = [], []
    for p in params.split(","):
        p = p.strip()
        if not p:
            continue
        names.append(re.search(r"(\w+)$", p).group(1))
        kinds.append("pure" if "RzILOpPure" in p else "ext:bundle" if "HexInsnPktBundle" in p else "ext:hexop" if "HexOp" in p else "ext")
    body = body.rsplit("}", 1)[0]
    decls, ret = parse_body(body)
    return names, kinds, decls, ret


def mask(w):
    return (1 << w) - 1


def sx(w, v):
    return v - (1 << w) if (v >> (w - 1)) & 1 else v


def reg_width(opname: str) -> int:
    m = re.match(r"^&?([A-Z])([a-z]{1,2})(?:_new)?_op$", opname)
    if m:
        base = {"R": 32, "C": 32, "M": 32, "N": 32, "P": 8}.get(m.group(1))
        if base is None:
            raise Unsupported(f"register class of {opname}")
        return base * 2 if len(m.group(2)) == 2 else base
    m = re.match(r"^&?([A-Z])(\d+)(?::\d+)?(?:_new)?_op$", opname)
    if m:
        return 8 if m.group(1) == "P" else 32
    if re.match(r"^&?(upcycle|pktcount|utimer)(_new)?_op$", opname):
        return 64
    return 32       # aliases


class State:
    """Initial machine state: register values by operand variable name, immediates by letter, memory."""

    def __init__(self, regs=None, imms=None, mem=None, default=None):
        self.regs = dict(regs or {})
        self.imms = dict(imms or {})
        self.mem = dict(mem or {})
        self.default = default      # callable(key) -> int for anything not given

    def reg(self, key):
        k = key.lstrip("&")
        if k not in self.regs:
            if self.default is None:
                raise Unsupported(f"no value for register {k}")
            self.regs[k] = self.default("reg:" + k)
        return self.regs[k] & mask(reg_width(k))

    def imm(self, letter):
        if letter not in self.imms:
            if self.default is None:
                raise Unsupported(f"no value for immediate {letter}")
            self.imms[letter] = self.default("imm:" + letter)
        return self.imms[letter]

    def byte(self, addr):
        a = addr & 0xFFFFFFFF
        if a not in self.mem:
            self.mem[a] = (self.default("mem:%d" % a) if self.default else 0) & 0xFF
        return self.mem[a]


class Machine:
    STEP_CAP = 200000

    def __init__(self, subs, state: State, scoped: bool):
        self.subs = subs            # name -> (param names, kinds, decls, ret)
        self.state = state
        self.scoped = scoped
        self.locals: dict[str, object] = {}
        self.written: dict[str, tuple] = {}
        self.memw: dict[int, int] = {}
        self.scope = ""
        self.nscope = 0
        self.calls = 0
        self.steps = 0
        self.lets: list[dict] = []
        self.writer: dict[str, str] = {}     # local name -> scope that wrote it last (diagnosis)
        self.callee_writes: dict[str, str] = {}   # raw local name -> first callee scope that wrote it
        self.readers: list = []

    # ------------------------------------------------------------ stage 1: C body -> IL term
    def build(self, decls, ret, env):
        env = dict(env)
        for ctype, is_ptr, name, e in decls:
            if ctype == "HexOp":
                # a HexOp declared as a struct is handed on as &name, one declared as a pointer as name
                env[name] = ("opvar", name, "ptr" if is_ptr else "struct")
                env["&" + name] = ("opvar", name, "ptr" if not is_ptr else "ptrptr")
                continue
            env[name] = self.subst(e, env)
        return self.subst(ret, env)

    def subst(self, e, env):
        k = e[0]
        if k == "var":
            if e[1] in env:
                return env[e[1]]
            return e
        if k == "call":
            name = e[1]
            args = [self.subst(a, env) for a in e[2]]
            if name == "DUP":
                return args[0]
            if name.startswith("hex_") and name[4:] in self.subs:
                return ("subcall", name[4:], args)
            return ("call", name, args)
        if k == "ccast":
            return ("ccast", e[1], self.subst(e[2], env))
        return e

    # ------------------------------------------------------------ stage 2: evaluation
    def lname(self, n):
        if self.scoped and n != "ret_val":
            return self.scope + n
        return n

    def tick(self):
        self.steps += 1
        if self.steps > self.STEP_CAP:
            raise ILError("step cap exceeded (non-terminating effect?)")

    def bv(self, t):
        v = self.ev(t)
        if isinstance(v, bool) or not isinstance(v, tuple):
            raise ILError(f"bitvector expected, got {v!r} from {str(t)[:80]}")
        return v

    def boolean(self, t):
        v = self.ev(t)
        if not isinstance(v, bool):
            raise ILError(f"bool expected, got {v!r} from {str(t)[:80]}")
        return v

    def cnum(self, t):
        """A C-level integer argument (widths, counts)."""
        if t[0] == "num":
            return t[1]
        if t[0] == "ccast":
            return self.cnum(t[2])
        if t[0] == "call" and t[1] == "ISA2IMM":
            return self.state.imm(t[2][1][1])
        raise Unsupported(f"C integer expected: {str(t)[:60]}")

    def opkey(self, t):
        if t[0] == "opvar":
            return t[1]
        if t[0] == "var":
            return t[1].lstrip("&")
        raise Unsupported(f"operand expected: {str(t)[:60]}")

    def ev(self, t):
        self.tick()
        k = t[0]
        if k == "val":
            return t[1]
        if k == "var":
            if t[1] in ("IL_FALSE", "false"):
                return False
            if t[1] in ("IL_TRUE", "true"):
                return True
            raise Unsupported(f"free C variable {t[1]}")
        if k != "call":
            raise Unsupported(f"cannot evaluate {str(t)[:60]}")
        f, a = t[1], t[2]
        if f in ("SN", "UN"):
            w = self.cnum(a[0])
            return (w, self.cnum(a[1]) & mask(w))
        if f == "VARL" or f == "VARLP":
            raw = a[0][1]
            if f == "VARLP":
                for frame in reversed(self.lets):
                    if raw in frame:
                        return frame[raw]
                raise ILError(f"LET variable {raw} not in scope")
            n = self.lname(raw)
            if n not in self.locals:
                raise ILError(f"read of unset local {n}")
            self.readers.append((n, self.scope))
            return self.locals[n]
        if f == "LET":
            val = self.ev(a[1])
            self.lets.append({a[0][1]: val})
            try:
                return self.ev(a[2])
            finally:
                self.lets.pop()
        if f == "READ_REG":
            key = self.opkey(a[1])
            return (reg_width(key), self.state.reg(key))
        if f == "CAST":
            w = self.cnum(a[0])
            fill = self.boolean(a[1])
            w0, v = self.bv(a[2])
            if w <= w0:
                return (w, v & mask(w))
            if fill:
                v |= mask(w - w0) << w0
            return (w, v)
        if f in ("UNSIGNED", "SIGNED"):
            w = self.cnum(a[0])
            w0, v = self.bv(a[1])
            if w <= w0:
                return (w, v & mask(w))
            if f == "SIGNED" and (v >> (w0 - 1)) & 1:
                v |= mask(w - w0) << w0
            return (w, v)
        if f == "MSB":
            w, v = self.bv(a[0])
            return bool((v >> (w - 1)) & 1)
        if f == "LSB":
            w, v = self.bv(a[0])
            return bool(v & 1)
        if f in ("ADD", "SUB", "MUL", "LOGAND", "LOGOR", "LOGXOR", "DIV", "MOD", "SDIV", "SMOD"):
            w, x = self.bv(a[0])
            w2, y = self.bv(a[1])
            if w != w2:
                raise ILError(f"{f}: operand widths {w} and {w2}")
            if f in ("DIV", "MOD"):
                r = (mask(w) if f == "DIV" else x) if y == 0 else (x // y if f == "DIV" else x % y)
            elif f in ("SDIV", "SMOD"):
                sxv, syv = sx(w, x), sx(w, y)
                if syv == 0:
                    r = mask(w) if f == "SDIV" else x
                else:
                    q = abs(sxv) // abs(syv) * (1 if (sxv < 0) == (syv < 0) else -1)
                    r = q if f == "SDIV" else sxv - q * syv
            else:
                r = {"ADD": x + y, "SUB": x - y, "MUL": x * y, "LOGAND": x & y, "LOGOR": x | y, "LOGXOR": x ^ y}[f]
            return (w, r & mask(w))
        if f == "LOGNOT":
            w, x = self.bv(a[0])
            return (w, ~x & mask(w))
        if f == "NEG":
            w, x = self.bv(a[0])
            return (w, -x & mask(w))
        if f in ("SHIFTL0", "SHIFTR0", "SHIFTRA"):
            w, x = self.bv(a[0])
            _, s = self.bv(a[1])
            if f == "SHIFTL0":
                r = (x << s) if s < w else 0
            elif f == "SHIFTR0":
                r = (x >> s) if s < w else 0
            else:
                r = sx(w, x) >> min(s, w)
            return (w, r & mask(w))
        if f in ("INC", "DEC"):
            w, x = self.bv(a[0])
            return (w, (x + (1 if f == "INC" else -1)) & mask(w))
        if f in ("EQ", "ULT", "ULE", "UGT", "UGE", "SLT", "SLE", "SGT", "SGE"):
            w, x = self.bv(a[0])
            w2, y = self.bv(a[1])
            if w != w2:
                raise ILError(f"{f}: operand widths {w} and {w2}")
            if f[0] == "S":
                x, y = sx(w, x), sx(w, y)
            return {"EQ": x == y, "LT": x < y, "LE": x <= y, "GT": x > y, "GE": x >= y}[f if f == "EQ" else f[1:]]
        if f == "NON_ZERO":
            return self.bv(a[0])[1] != 0
        if f == "IS_ZERO":
            return self.bv(a[0])[1] == 0
        if f == "INV":
            return not self.boolean(a[0])
        if f == "AND":
            x = self.boolean(a[0])
            y = self.boolean(a[1])
            return x and y
        if f == "OR":
            x = self.boolean(a[0])
            y = self.boolean(a[1])
            return x or y
        if f == "XOR":
            return self.boolean(a[0]) != self.boolean(a[1])
        if f == "ITE":
            return self.ev(a[1]) if self.boolean(a[0]) else self.ev(a[2])
        if f in ("BSWAP16", "BSWAP32", "BSWAP64"):
            w, x = self.bv(a[0])
            return (w, int.from_bytes(x.to_bytes(w // 8, "little"), "big"))
        if f in ("EXTRACT32", "EXTRACT64", "SEXTRACT64"):
            w, x = self.bv(a[0])
            _, start = self.bv(a[1])
            _, length = self.bv(a[2])
            start, length = sx(32, start), sx(32, length)
            if length <= 0 or start < 0 or start + length > w:
                raise Unsupported("extract outside the word")
            r = (x >> start) & mask(length)
            if f == "SEXTRACT64" and (r >> (length - 1)) & 1:
                r |= mask(w - length) << length
            return (w, r)
        if f in ("DEPOSIT32", "DEPOSIT64"):
            w, x = self.bv(a[0])
            _, start = self.bv(a[1])
            _, length = self.bv(a[2])
            _, fv = self.bv(a[3])
            start, length = sx(32, start), sx(32, length)
            if length <= 0 or start < 0 or start + length > w:
                raise Unsupported("deposit outside the word")
            m = mask(length) << start
            return (w, (x & ~m & mask(w)) | ((fv << start) & m))
        if f == "U32" or f == "U64":
            # plugin helper: a C integer turned into a bitvector; the only use in emitted code is the packet address (PC)
            w = 32 if f == "U32" else 64
            if a[0][0] == "var" and a[0][1] == "pkt->pkt_addr":
                return (w, self.state.reg("pc_op") & mask(w))
            return (w, self.cnum(a[0]) & mask(w))
        if f == "HEX_REGFIELD":
            # plugin table lookup; the concrete numbers are a table shared with the reference (sim/il.REGFIELDS)
            prop, field = a[0], a[1]
            if prop[0] != "var" or field[0] != "var" or field[1] not in REGFIELDS:
                raise Unsupported(f"HEX_REGFIELD({str(prop)[:30]}, {str(field)[:40]})")
            off, width = REGFIELDS[field[1]]
            if prop[1] == "HEX_RF_WIDTH":
                return (32, width)
            if prop[1] == "HEX_RF_OFFSET":
                return (32, off)
            raise Unsupported(f"HEX_REGFIELD property {prop[1]}")
        if f == "LOADW":
            n = self.cnum(a[0])
            _, addr = self.bv(a[1])
            v = 0
            for i in range(n // 8):
                ad = (addr + i) & 0xFFFFFFFF
                b = self.memw[ad] if ad in self.memw else self.state.byte(ad)
                v |= b << (8 * i)
            return (n, v)
        raise Unsupported(f"pure operator {f}")

    def ex(self, t):
        self.tick()
        k = t[0]
        if k == "subcall":
            self.call(t[1], t[2])
            return
        if k != "call":
            raise Unsupported(f"cannot execute {str(t)[:60]}")
        f, a = t[1], t[2]
        if f == "SETL":
            n = self.lname(a[0][1])
            self.locals[n] = self.ev(a[1])
            self.writer[n] = self.scope
            if self.scope and a[0][1] not in self.callee_writes:
                self.callee_writes[a[0][1]] = self.scope
            return
        if f == "SEQN":
            n = self.cnum(a[0])
            if n != len(a) - 1:
                raise ILError(f"SEQN({n}) with {len(a) - 1} effects")
            for x in a[1:]:
                self.ex(x)
            return
        if re.fullmatch(r"SEQ\d", f):
            for x in a:
                self.ex(x)
            return
        if f == "BRANCH":
            self.ex(a[1] if self.boolean(a[0]) else a[2])
            return
        if f == "REPEAT":
            n = 0
            while self.boolean(a[0]):
                self.ex(a[1])
                n += 1
                if n > 4096:
                    raise ILError("REPEAT does not terminate")
            return
        if f in ("EMPTY", "NOP"):
            return
        if f == "WRITE_REG":
            key = self.opkey(a[1])
            v = self.ev(a[2])
            self.written[key] = v
            return
        if f == "STOREW":
            _, addr = self.bv(a[0])
            w, v = self.bv(a[1])
            for i in range(w // 8):
                self.memw[(addr + i) & 0xFFFFFFFF] = (v >> (8 * i)) & 0xFF
            return
        if f == "JMP":
            self.locals[self.lname("jump_target")] = self.ev(a[0])
            return
        raise Unsupported(f"effect operator {f}")

    def call(self, name, args):
        self.calls += 1
        params, kinds, decls, ret = self.subs[name]
        if len(args) != len(params):
            raise ILError(f"call of {name} with {len(args)} arguments for {len(params)} parameters")
        # what the C compiler of the generated code would reject: packet data, register operands and IL values are
        # different C types, so each has to arrive at a parameter of its own kind
        for a, kind, pn in zip(args, kinds, params):
            is_bundle = a == ("var", "bundle")
            is_op = a[0] == "opvar" or (a[0] == "var" and a[1].endswith("_op"))
            if (kind == "ext:bundle" and not is_bundle) or (kind != "ext:bundle" and is_bundle) or (kind == "pure" and is_op) \
                    or (kind == "ext:hexop" and a[0] not in ("var", "opvar")):
                raise ILError(f"ill-sorted argument: parameter {pn} ({kind}) of {name} gets {str(a)[:60]}")
            if kind == "ext:hexop" and a[0] == "opvar" and len(a) > 2 and a[2] != "ptr":
                raise ILError(f"ill-sorted argument: parameter {pn} (const HexOp *) of {name} gets a HexOp {a[2]} ({a[1]})")
        if self.scoped:
            vals = []
            for a, kind in zip(args, kinds):
                vals.append(("val", self.ev(a)) if kind == "pure" else a)
            saved = self.scope
            self.nscope += 1
            self.scope = f"{name}#{self.nscope}:"
            try:
                eff = self.build(decls, ret, dict(zip(params, vals)))
                self.ex(eff)
            finally:
                self.scope = saved
        else:
            saved = self.scope
            self.nscope += 1
            self.scope = f"{name}#{self.nscope}:"       # only a label for diagnosis in flat mode
            try:
                eff = self.build(decls, ret, dict(zip(params, args)))
                self.ex(eff)
            finally:
                self.scope = saved

    def lname_flat(self, n):
        return n


def run_body(body_text, subs, state: State, scoped: bool):
    """-> dict(written, mem, locals (top-level names only), calls)"""
    m = Machine(subs, State(state.regs, state.imms, state.mem, state.default), scoped)
    decls, ret = parse_body(body_text)
    eff = m.build(decls, ret, {})
    m.ex(eff)
    top = {k: v for k, v in m.locals.items() if ":" not in k}
    return {"written": dict(m.written), "mem": dict(m.memw), "locals": top, "calls": m.calls, "writer": dict(m.writer), "callee_writes": dict(m.callee_writes),
            "all_locals": dict(m.locals)}
