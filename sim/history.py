"""Engine H: compiler-history simulator.

System under simulation: one OS process hosting 1..3 `Compiler` instances (both CodeFormats) and
ad-hoc `RZILTransformer`s, i.e. everything that shares the class-level and per-instance state.
All code of the system is real (even Conf.get_path's git subprocesses).

Process-global state cannot be reset from inside, so every run is a *fresh fork of a pristine
zygote*: a process that imported the working tree and constructed exactly one Compiler of the
requested CodeFormat and did nothing else.  A reference result is the same thing with a
one-operation history, so "compiled first on a fresh compiler" is literal.

    batch worker --(op list)--> zygote(fmt) --fork--> child: executes ops, reports observations
"""
from __future__ import annotations

import contextlib
import io
import os
import pickle
import signal
import struct
import sys
import traceback


def _send(fd, obj):
    data = pickle.dumps(obj, protocol=pickle.HIGHEST_PROTOCOL)
    data = struct.pack("<Q", len(data)) + data
    mv = memoryview(data)
    off = 0
    while off < len(mv):
        off += os.write(fd, mv[off:off + (1 << 16)])


def _recv(fd):
    hdr = b""
    while len(hdr) < 8:
        c = os.read(fd, 8 - len(hdr))
        if not c:
            raise EOFError
        hdr += c
    n = struct.unpack("<Q", hdr)[0]
    buf = bytearray()
    while len(buf) < n:
        c = os.read(fd, min(1 << 20, n - len(buf)))
        if not c:
            raise EOFError
        buf += c
    return pickle.loads(bytes(buf))


def innermost(e: BaseException) -> BaseException:
    for _ in range(8):
        inner = getattr(e, "orig_exc", None)
        if isinstance(inner, BaseException):
            e = inner
        else:
            break
    return e


FMT = {"READ_STATEMENTS": "READ_STATEMENTS", "EXEC_CLASSES": "EXEC_CLASSES"}


class _Ctx:
    """State of one zygote / child."""

    def __init__(self, fmt, trees):
        from rzilcompiler.ArchEnum import ArchEnum
        from rzilcompiler.Compiler import Compiler
        from rzilcompiler.Transformer.RZILTransformer import CodeFormat, RZILTransformer
        from sim.faults import CallbackFault
        self.ArchEnum, self.Compiler, self.CodeFormat, self.RZILTransformer = ArchEnum, Compiler, CodeFormat, RZILTransformer
        self.trees = trees
        self.fmt = fmt
        self.compiler = Compiler(ArchEnum.HEXAGON, code_format=CodeFormat[fmt])
        self.fault = CallbackFault(RZILTransformer)
        try:
            from rzilcompiler.HexagonExtensions import HexagonTransformerExtension
            self.fault.install_meta(HexagonTransformerExtension)
        except Exception:  # noqa: BLE001 - the seam is optional
            pass
        import lark
        from sim.corpus import grammar_text
        # harness-owned parser for texts that are not in the inherited cache (built once per zygote)
        self._parser = lark.Lark(grammar_text(), start="fbody", parser="earley")

    def tree(self, text):
        hit = self.trees.get(text)
        if hit is not None:
            if hit[0] != "ok":
                raise ValueError(f"harness: text does not parse ({hit[1]}): {text[:80]}")
            return hit[1]
        t = self._parser.parse(text)
        self.trees[text] = ("ok", t)
        return t


def _meta_of(transformer):
    try:
        return list(transformer.ext.get_meta())
    except Exception as e:  # noqa: BLE001
        return ["<get_meta raised %s>" % type(e).__name__]


def run_ops(ctx: _Ctx, ops: list) -> list:
    from rzilcompiler.Parser import ParsedInsn
    from rzilcompiler.Transformer.Pures.Parameter import Parameter
    from rzilcompiler.Transformer.ValueType import get_value_type_by_c_type
    from rzilcompiler.Transformer.Hybrids.SubRoutine import SubRoutineInitType
    comps = [ctx.compiler]
    obs = []
    for op in ops:
        kind = op["op"]
        o = {"status": "ok"}
        fault = op.get("fault")
        c = comps[op.get("inst", 0) % len(comps)]
        o["inst"] = op.get("inst", 0) % len(comps)
        o["fmt"] = c.code_format.name
        try:
            holder = c.transformer.il_ops_holder
            o["hyb_before"] = int(getattr(holder, "hybrid_op_count", -1))
        except Exception:  # noqa: BLE001
            o["hyb_before"] = -1
        if fault and fault.get("site") == "meta" and ctx.fault.meta is not None:
            ctx.fault.arm_meta(fault["at"], fault["exc"])
        elif fault:
            ctx.fault.arm(fault["at"], fault["when"], fault["exc"])
        else:
            ctx.fault.arm(-1, "pre", "ValueError")      # counts callbacks, never fires
        try:
            if kind == "new_compiler" and op.get("io_fault"):
                # I/O fault while the constructor reads its resource files: the n-th open() of a matching path raises
                # OSError, or (json files) delivers only the first half of the file (torn read)
                import builtins
                import errno as _errno
                import io as _io
                iof = op["io_fault"]
                real_open = builtins.open
                seen = {"n": 0}

                def faulty_open(file, *a, **kw):
                    if isinstance(file, (str, os.PathLike)) and iof["match"] in os.path.basename(str(file)):
                        seen["n"] += 1
                        if seen["n"] == iof.get("nth", 1):
                            o["fault_fired"] = True
                            if iof["kind"] == "torn":
                                with real_open(file, *a, **kw) as f_:
                                    data = f_.read()
                                return _io.StringIO(data[:len(data) // 2])
                            raise OSError({"EIO": _errno.EIO, "EMFILE": _errno.EMFILE, "ENOENT": _errno.ENOENT}[iof["kind"]],
                                          "injected I/O fault", str(file))
                    return real_open(file, *a, **kw)
                builtins.open = faulty_open
                try:
                    comps.append(ctx.Compiler(ctx.ArchEnum.HEXAGON, code_format=ctx.CodeFormat[op["fmt"]]))
                finally:
                    builtins.open = real_open
            elif kind == "new_compiler":
                comps.append(ctx.Compiler(ctx.ArchEnum.HEXAGON, code_format=ctx.CodeFormat[op["fmt"]]))
            elif kind == "stmt":
                code = c.compile_c_stmt(op["code"])
                o["parts"] = [{"code": code}]
            elif kind == "insn":
                trees_ = [ctx.tree(p) for p in op["parts"]]
                pi = ParsedInsn(op["name"], trees_, list(op["parts"]))
                if op.get("via") == "compile_insn":
                    if "parsed_insns" not in vars(c):
                        c.parsed_insns = dict()
                    c.parsed_insns[op["name"]] = pi
                    r = c.compile_insn(op["name"])
                else:
                    r = c.transform_insn(op["name"], pi)
                o["insn_name"] = r.name
                o["parts"] = [{"code": code, "meta": list(meta)} for code, meta in zip(r.rzil, r.meta)]
                o["needs_hi"] = [bool(x) for x in r.needs_hi]
                o["needs_pkt"] = [bool(x) for x in r.needs_pkt]
                o["nparts_in"] = len(op["parts"])
            elif kind == "compile_parsed":
                r = c.compile_insn(op["name"])
                o["insn_name"] = r.name
                o["parts"] = [{"code": code, "meta": list(meta)} for code, meta in zip(r.rzil, r.meta)]
                o["needs_hi"] = [bool(x) for x in r.needs_hi]
                o["needs_pkt"] = [bool(x) for x in r.needs_pkt]
            elif kind == "load":
                c.preprocessor.load_insn_behavior()
                o["nbeh"] = len(c.preprocessor.behaviors)
            elif kind == "loaded_insn":
                # the shipped route: behaviours come from the preprocessor's loader, not from the harness
                parts_ = c.preprocessor.get_insn_behavior(op["name"])
                if parts_ is None:
                    c.preprocessor.load_insn_behavior()
                    parts_ = c.preprocessor.get_insn_behavior(op["name"])
                o["loaded_parts"] = list(parts_) if parts_ is not None else None
                trees_ = [ctx.tree(p) for p in parts_]
                pi = ParsedInsn(op["name"], trees_, list(parts_))
                r = c.transform_insn(op["name"], pi)
                o["insn_name"] = r.name
                o["parts"] = [{"code": code, "meta": list(meta)} for code, meta in zip(r.rzil, r.meta)]
                o["needs_hi"] = [bool(x) for x in r.needs_hi]
                o["needs_pkt"] = [bool(x) for x in r.needs_pkt]
            elif kind == "fresh" and op.get("thread"):
                # transform on a worker thread, read the attributes on the main thread
                import threading
                params = [
                    Parameter("pkt", get_value_type_by_c_type("HexPkt")),
                    Parameter("hi", get_value_type_by_c_type("HexInsn")),
                    Parameter("bundle", get_value_type_by_c_type("HexInsnPktBundle")),
                ]
                t = ctx.RZILTransformer(
                    ctx.ArchEnum.HEXAGON,
                    sub_routines=c.sub_routines,
                    parameters=params,
                    return_type=get_value_type_by_c_type("RzILOpEffect"),
                    code_format=ctx.CodeFormat[op.get("fmt", c.code_format.name)],
                    macros=c.transformer.macros,
                )
                o["fmt"] = op.get("fmt", c.code_format.name)
                box = {}
                tree_ = ctx.tree(op["code"])

                def work():
                    try:
                        box["code"] = t.transform(tree_)
                    except BaseException as e_:  # noqa: BLE001
                        box["exc"] = e_
                th = threading.Thread(target=work)
                th.start()
                th.join()
                if "exc" in box:
                    raise box["exc"]
                o["parts"] = [{"code": box["code"], "meta": _meta_of(t), "meta_again": _meta_of(t)}]
            elif kind == "fresh":
                params = [
                    Parameter("pkt", get_value_type_by_c_type("HexPkt")),
                    Parameter("hi", get_value_type_by_c_type("HexInsn")),
                    Parameter("bundle", get_value_type_by_c_type("HexInsnPktBundle")),
                ]
                t = ctx.RZILTransformer(
                    ctx.ArchEnum.HEXAGON,
                    sub_routines=c.sub_routines,
                    parameters=params,
                    return_type=get_value_type_by_c_type("RzILOpEffect"),
                    code_format=ctx.CodeFormat[op.get("fmt", c.code_format.name)],
                    macros=c.transformer.macros,
                )
                o["fmt"] = op.get("fmt", c.code_format.name)
                code = t.transform(ctx.tree(op["code"]))
                o["parts"] = [{"code": code, "meta": _meta_of(t), "meta_again": _meta_of(t)}]
            elif kind == "fresh2":
                # two ad-hoc transformers alive at the same time, used alternately; attributes are read at the end
                def mk():
                    return ctx.RZILTransformer(
                        ctx.ArchEnum.HEXAGON,
                        sub_routines=c.sub_routines,
                        parameters=[
                            Parameter("pkt", get_value_type_by_c_type("HexPkt")),
                            Parameter("hi", get_value_type_by_c_type("HexInsn")),
                            Parameter("bundle", get_value_type_by_c_type("HexInsnPktBundle")),
                        ],
                        return_type=get_value_type_by_c_type("RzILOpEffect"),
                        code_format=ctx.CodeFormat[op.get("fmt", c.code_format.name)],
                        macros=c.transformer.macros,
                    )
                t1, t2 = mk(), mk()
                o["fmt"] = op.get("fmt", c.code_format.name)
                code1 = t1.transform(ctx.tree(op["codes"][0]))
                code2 = t2.transform(ctx.tree(op["codes"][1]))
                o["parts"] = [{"code": code1, "meta": _meta_of(t1), "meta_again": _meta_of(t1)},
                              {"code": code2, "meta": _meta_of(t2), "meta_again": _meta_of(t2)}]
            elif kind == "xform2":
                # two compiler instances used alternately through their own transformers (what transform_insn does per
                # part: reset, transform, read the attributes) - the attributes are read after both have transformed
                c2 = comps[op["inst2"] % len(comps)]
                t1, t2 = c.transformer, c2.transformer
                o["inst2"] = op["inst2"] % len(comps)
                try:
                    t1.reset()
                    code1 = t1.transform(ctx.tree(op["codes"][0]))
                    if c2 is c:
                        # (a minimised history may have lost the second instance: then the two are plain consecutive uses)
                        p1 = {"code": code1, "meta": _meta_of(t1), "meta_again": _meta_of(t1)}
                        t1.reset()
                        code2 = t1.transform(ctx.tree(op["codes"][1]))
                        o["parts"] = [p1, {"code": code2, "meta": _meta_of(t1), "meta_again": _meta_of(t1)}]
                    else:
                        t2.reset()
                        code2 = t2.transform(ctx.tree(op["codes"][1]))
                        o["parts"] = [{"code": code1, "meta": _meta_of(t1), "meta_again": _meta_of(t1)},
                                      {"code": code2, "meta": _meta_of(t2), "meta_again": _meta_of(t2)}]
                finally:
                    t1.reset()
                    t2.reset()
            elif kind == "add_sub":
                c.add_sub_routine(op["name"], op["ret"], list(op["params"]), op["body"])
                o["def"] = c.sub_routines[op["name"]].il_init(SubRoutineInitType.DEF)
            elif kind == "add_macro":
                c.add_macro_to_transformer(op["name"], op["ret"], list(op["params"]), op["rzil"])
            elif kind == "shortcode":
                # the shipped batch route on a small behaviour table: preprocessor.behaviors -> parse_shortcode (real pool)
                c.preprocessor.behaviors = {k: list(v) for k, v in op["behaviors"].items()}
                c.parse_shortcode()
                o["parsed"] = sorted(c.parsed_insns)
            elif kind == "dump_subs":
                o["defs"] = {}
                for name in op["names"]:
                    if name in c.sub_routines:
                        o["defs"][name] = c.sub_routines[name].il_init(SubRoutineInitType.DEF)
            elif kind == "meta_after":
                o["parts"] = [{"meta": _meta_of(c.transformer)}]
            else:
                raise ValueError(f"harness: unknown op {kind}")
        except BaseException as e:  # noqa: BLE001
            if isinstance(e, (KeyboardInterrupt, SystemExit)):
                raise
            ie = innermost(e)
            if str(ie).startswith("harness:"):
                raise
            o["status"] = "exc"
            o["exc"] = type(ie).__name__
            o["outer_exc"] = type(e).__name__
            o["msg"] = str(ie)[:200]
        o["fault_fired"] = bool(ctx.fault.fired) or bool(o.get("fault_fired"))
        o["ncb"] = ctx.fault.disarm()
        o["nmeta"] = getattr(ctx.fault, "nmeta", 0)
        try:
            o["hyb_after"] = int(getattr(c.transformer.il_ops_holder, "hybrid_op_count", -1))
        except Exception:  # noqa: BLE001
            o["hyb_after"] = -1
        obs.append(o)
    return obs


def _serve(ctx, rfd, wfd):
    """Zygote loop: one fork of the pristine state per request."""
    while True:
        try:
            req = _recv(rfd)
        except EOFError:
            return
        if req is None:
            return
        pid = os.fork()
        if pid == 0:
            try:
                try:
                    res = ("obs", run_ops(ctx, req))
                except BaseException:  # noqa: BLE001
                    res = ("crash", traceback.format_exc())
                _send(wfd, res)
            finally:
                os._exit(0)
        _, status = os.waitpid(pid, 0)
        _send(wfd, ("done", status))


def _silence():
    devnull = os.open(os.devnull, os.O_WRONLY)
    os.dup2(devnull, 1)
    os.dup2(devnull, 2)
    sys.stdout = open(os.devnull, "w")
    sys.stderr = sys.stdout


class ZygoteFarm:
    """Created once in the driver, before the batch workers are forked.

    One *master* per CodeFormat imports the working tree and constructs the single pristine
    Compiler (3.7 s); it then forks one zygote per slot (milliseconds), each serving one batch
    worker over its own pipe pair.  Every run / reference is a fork of such a zygote.
    """

    def __init__(self, trees: dict, nslots: int, fmts=("READ_STATEMENTS", "EXEC_CLASSES")):
        import gc
        self.nslots = nslots
        self.pipes = {}          # (fmt, slot) -> (p2c_r, p2c_w, c2p_r, c2p_w)
        for fmt in fmts:
            for k in range(nslots):
                p2c_r, p2c_w = os.pipe()
                c2p_r, c2p_w = os.pipe()
                self.pipes[(fmt, k)] = (p2c_r, p2c_w, c2p_r, c2p_w)
        self.masters = {}
        sys.stdout.flush()
        sys.stderr.flush()
        for fmt in fmts:
            ready_r, ready_w = os.pipe()
            pid = os.fork()
            if pid == 0:
                try:
                    os.close(ready_r)
                    signal.signal(signal.SIGINT, signal.SIG_IGN)
                    _silence()
                    try:
                        ctx = _Ctx(fmt, trees)
                        gc.collect()
                        gc.freeze()      # children must not copy-on-write the whole heap when the collector runs
                        _send(ready_w, ("ready", None))
                    except BaseException:  # noqa: BLE001
                        _send(ready_w, ("crash", traceback.format_exc()))
                        os._exit(1)
                    os.close(ready_w)
                    kids = []
                    for k in range(nslots):
                        zpid = os.fork()
                        if zpid == 0:
                            try:
                                mine = self.pipes[(fmt, k)]
                                for key, fds in self.pipes.items():
                                    for fd in fds:
                                        if key != (fmt, k) or fd in (mine[1], mine[2]):
                                            try:
                                                os.close(fd)
                                            except OSError:
                                                pass
                                _serve(ctx, mine[0], mine[3])
                            finally:
                                os._exit(0)
                        kids.append(zpid)
                    for fds in self.pipes.values():
                        for fd in fds:
                            try:
                                os.close(fd)
                            except OSError:
                                pass
                    for z in kids:
                        try:
                            os.waitpid(z, 0)
                        except OSError:
                            pass
                finally:
                    os._exit(0)
            os.close(ready_w)
            self.masters[fmt] = (pid, ready_r)
        for fmt, (pid, ready_r) in self.masters.items():
            kind, payload = _recv(ready_r)
            os.close(ready_r)
            if kind != "ready":
                self.shutdown()
                raise RuntimeError(f"zygote master({fmt}) failed to start:\n{payload}")
        # the driver keeps only the client ends
        for (fmt, k), (p2c_r, p2c_w, c2p_r, c2p_w) in self.pipes.items():
            os.close(p2c_r)
            os.close(c2p_w)
        self.client_fds = {key: (fds[1], fds[2]) for key, fds in self.pipes.items()}

    def client(self, slot: int) -> "HistorySim":
        return HistorySim({fmt: fds for (fmt, k), fds in self.client_fds.items() if k == slot})

    def shutdown(self):
        for (fmt, k), (wfd, rfd) in getattr(self, "client_fds", {}).items():
            try:
                _send(wfd, None)
            except OSError:
                pass
            for fd in (wfd, rfd):
                try:
                    os.close(fd)
                except OSError:
                    pass
        self.client_fds = {}
        for fmt, (pid, _) in self.masters.items():
            try:
                os.waitpid(pid, 0)
            except OSError:
                pass
        self.masters = {}


class HistorySim:
    """Batch-worker side: talks to this worker's zygote of each CodeFormat."""

    def __init__(self, fds: dict):
        self.fds = fds               # fmt -> (wfd, rfd)
        self.executions = 0

    def execute(self, fmt: str, ops: list) -> list:
        wfd, rfd = self.fds[fmt]
        _send(wfd, ops)
        result = None
        while True:
            kind, payload = _recv(rfd)
            if kind == "done":
                break
            result = (kind, payload)
        self.executions += 1
        if result is None:
            raise RuntimeError(f"history child died without a report (wait status {payload}) for ops {ops[:3]}...")
        if result[0] == "crash":
            raise RuntimeError("history child crashed:\n" + result[1])
        return result[1]

    def stop(self):
        pass
