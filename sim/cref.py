"""C11 reference evaluator over the generator's mini-AST (two's complement, wrap-around, arithmetic
>> on signed values, integer promotion, usual arithmetic conversions with rank = width).

Types are ("s"|"u", width).  Expressions evaluate to (type, python int within the type's range).

    ("lit", value, type) ("var", name) ("reg", text, type) ("cast", type, e)
    ("bin", op, a, b)  op in + - * & | ^        ("shift", op, a, literal amount)
    ("cmp", op, a, b)  ("neg", e) ("not", e) ("cond", c, a, b) ("call", fname, [args]) ("postinc", name, +1|-1)
Statements:
    ("decl", type, name, e|None) ("assign", name, e) ("regassign", text, e) ("if", c, [then], [else]) ("return", e)
    ("expr", e)
Functions: {"name", "ret": type, "params": [(type, name)], "body": [stmts]} or a native python callable.

`bugs` switches in the two *known* deviations of the compiler, only to classify a mismatch:
  F5a  a conversion from a signed type to a wider unsigned type zero-extends
  F5b  the value of `return e` is zero-extended to 64 bit and then cut to the declared return type
"""
from __future__ import annotations

TYPES = {
    "int8_t": ("s", 8), "uint8_t": ("u", 8), "int16_t": ("s", 16), "uint16_t": ("u", 16),
    "int32_t": ("s", 32), "uint32_t": ("u", 32), "int64_t": ("s", 64), "uint64_t": ("u", 64),
}
NAMES = {v: k for k, v in TYPES.items()}
INT = ("s", 32)


def wrap(v: int, t) -> int:
    s, w = t
    v &= (1 << w) - 1
    if s == "s" and v >> (w - 1):
        v -= 1 << w
    return v


def bits(v: int, t) -> int:
    return v & ((1 << t[1]) - 1)


def promote(t):
    return INT if t[1] < 32 else t


def common(a, b):
    a, b = promote(a), promote(b)
    if a == b:
        return a
    if a[0] == b[0]:
        return a if a[1] >= b[1] else b
    u, s = (a, b) if a[0] == "u" else (b, a)
    if u[1] >= s[1]:
        return u
    return s


class Return(Exception):
    def __init__(self, val):
        self.val = val


class CRef:
    def __init__(self, funcs: dict, regs: dict, bugs=()):
        self.funcs = funcs
        self.regs = regs            # text -> python int (bit pattern)
        self.bugs = set(bugs)
        self.reg_writes: dict[str, tuple] = {}
        self.steps = 0

    def conv(self, tv, t, ctx="conv"):
        st, v = tv
        if "F5a" in self.bugs and st[0] == "s" and t[0] == "u" and t[1] > st[1]:
            return (t, wrap(bits(v, st), t))          # zero-extension of the source bit pattern
        return (t, wrap(v, t))

    def ev(self, e, env):
        self.steps += 1
        if self.steps > 100000:
            raise RuntimeError("cref step cap")
        k = e[0]
        if k == "lit":
            return (e[2], wrap(e[1], e[2]))
        if k == "var":
            return env[e[1]]
        if k == "reg":
            return (e[2], wrap(self.regs[e[1]], e[2]))
        if k == "cast":
            return self.conv(self.ev(e[2], env), e[1], "cast")
        if k == "bin":
            a, b = self.ev(e[2], env), self.ev(e[3], env)
            t = common(a[0], b[0])
            x, y = self.conv(a, t)[1], self.conv(b, t)[1]
            r = {"+": x + y, "-": x - y, "*": x * y, "&": x & y, "|": x | y, "^": x ^ y}[e[1]]
            return (t, wrap(r, t))
        if k == "shift":
            a = self.ev(e[2], env)
            t = promote(a[0])
            x = self.conv(a, t)[1]
            s = e[3]
            r = x << s if e[1] == "<<" else x >> s           # python >> on negative ints is arithmetic
            return (t, wrap(r, t))
        if k == "cmp":
            a, b = self.ev(e[2], env), self.ev(e[3], env)
            t = common(a[0], b[0])
            x, y = self.conv(a, t)[1], self.conv(b, t)[1]
            r = {"==": x == y, "!=": x != y, "<": x < y, ">": x > y, "<=": x <= y, ">=": x >= y}[e[1]]
            return (INT, int(r))
        if k == "neg":
            a = self.ev(e[1], env)
            t = promote(a[0])
            return (t, wrap(-self.conv(a, t)[1], t))
        if k == "not":
            a = self.ev(e[1], env)
            t = promote(a[0])
            return (t, wrap(~self.conv(a, t)[1], t))
        if k == "lnot":
            return (INT, int(self.ev(e[1], env)[1] == 0))
        if k in ("land", "lor"):
            # (both operands are evaluated: the generator only puts side-effect free calls here, so short-circuiting is
            #  not observable)
            a, b = self.ev(e[1], env), self.ev(e[2], env)
            return (INT, int((a[1] != 0 and b[1] != 0) if k == "land" else (a[1] != 0 or b[1] != 0)))
        if k == "cond":
            c = self.ev(e[1], env)
            # the result type is the common type of both arms, whichever is taken
            ta = self.static_type(e[2], env)
            tb = self.static_type(e[3], env)
            t = common(ta, tb)
            return self.conv(self.ev(e[2] if c[1] != 0 else e[3], env), t)
        if k == "postinc":
            t, v = env[e[1]]
            env[e[1]] = (t, wrap(v + e[2], t))
            return (t, v)
        if k == "call":
            return self.call(e[1], [self.ev(a, env) for a in e[2]])
        if k == "ext":
            return (("ext", e[1]), 0)          # bundle / register operand / enum: passed through, never evaluated
        raise ValueError(e)

    def static_type(self, e, env):
        k = e[0]
        if k == "lit":
            return e[2]
        if k == "var":
            return env[e[1]][0]
        if k == "reg":
            return e[2]
        if k == "cast":
            return e[1]
        if k == "bin":
            return common(self.static_type(e[2], env), self.static_type(e[3], env))
        if k == "shift":
            return promote(self.static_type(e[2], env))
        if k in ("cmp", "lnot", "land", "lor"):
            return INT
        if k in ("neg", "not"):
            return promote(self.static_type(e[1], env))
        if k == "cond":
            return common(self.static_type(e[2], env), self.static_type(e[3], env))
        if k == "postinc":
            return env[e[1]][0]
        if k == "call":
            f = self.funcs[e[1]]
            return f["ret"]
        raise ValueError(e)

    def call(self, name, argvals):
        f = self.funcs[name]
        params = f["params"]
        if len(params) != len(argvals):
            raise ValueError("arity")
        conv = [a if pt[0] == "ext" else self.conv(a, pt, "arg") for a, (pt, _) in zip(argvals, params)]
        if "native" in f:
            r = f["native"](*[bits(v, t) for t, v in conv])
            return (f["ret"], wrap(r, f["ret"]))
        env = {pn: cv for cv, (_, pn) in zip(conv, params)}
        try:
            self.run(f["body"], env)
        except Return as r:
            tv = r.val
            if "F5b" in self.bugs:
                st, v = tv
                return (f["ret"], wrap(bits(v, st), f["ret"]))     # zero-extended to 64 bit, then cut to the return type
            return self.conv(tv, f["ret"], "return")
        if f["ret"] is None:
            return (("s", 32), 0)           # void: no value
        raise ValueError(f"{name} fell off its end without return")

    def run(self, stmts, env):
        for s in stmts:
            k = s[0]
            if k == "decl":
                if s[3] is None:
                    env[s[2]] = (s[1], 0)
                else:
                    env[s[2]] = self.conv(self.ev(s[3], env), s[1], "init")
            elif k == "assign":
                env[s[1]] = self.conv(self.ev(s[2], env), env[s[1]][0], "assign")
            elif k == "regassign":
                t = s[3]
                self.reg_writes[s[1]] = self.conv(self.ev(s[2], env), t, "assign")
            elif k == "if":
                c = self.ev(s[1], env)
                self.run(s[2] if c[1] != 0 else s[3], env)
            elif k == "for":
                # for (i = 0; i < n; i++) { body }  with the dialect's iterator variable (uint32_t)
                env[s[1]] = (("u", 32), 0)
                while env[s[1]][1] < s[2]:
                    self.run(s[3], env)
                    env[s[1]] = (("u", 32), wrap(env[s[1]][1] + 1, ("u", 32)))
            elif k == "forc":
                # for (i = 0; <cond>; i++) { body }
                env[s[1]] = (("u", 32), 0)
                n = 0
                while self.ev(s[2], env)[1] != 0:
                    self.run(s[3], env)
                    env[s[1]] = (("u", 32), wrap(env[s[1]][1] + 1, ("u", 32)))
                    n += 1
                    if n > 64:
                        raise RuntimeError("loop bound")
            elif k == "return":
                raise Return(self.ev(s[1], env))
            elif k == "expr":
                self.ev(s[1], env)
            else:
                raise ValueError(s)


# ------------------------------------------------------------------ printing as shortcode-dialect C

def show_type(t):
    if t is None:
        return "void"
    return NAMES[t]


def show_expr(e) -> str:
    k = e[0]
    if k == "lit":
        v, t = e[1], e[2]
        suffix = {("s", 32): "", ("u", 32): "U", ("s", 64): "LL", ("u", 64): "ULL"}[t]
        if v < 0:
            return f"(-{-v}{suffix})"
        return f"{v}{suffix}"
    if k == "var":
        return e[1]
    if k == "reg":
        return e[1]
    if k == "cast":
        return f"(({show_type(e[1])}) {show_expr(e[2])})"
    if k == "bin":
        return f"({show_expr(e[2])} {e[1]} {show_expr(e[3])})"
    if k == "shift":
        return f"({show_expr(e[2])} {e[1]} {e[3]})"
    if k == "cmp":
        return f"({show_expr(e[2])} {e[1]} {show_expr(e[3])})"
    if k == "neg":
        return f"(-{show_expr(e[1])})"
    if k == "not":
        return f"(~{show_expr(e[1])})"
    if k == "lnot":
        return f"(!{show_expr(e[1])})"
    if k in ("land", "lor"):
        return f"({show_expr(e[1])} {'&&' if k == 'land' else '||'} {show_expr(e[2])})"
    if k == "cond":
        return f"({show_expr(e[1])} ? {show_expr(e[2])} : {show_expr(e[3])})"
    if k == "postinc":
        return e[1] + ("++" if e[2] > 0 else "--")
    if k == "call":
        return f"{e[1]}({', '.join(show_expr(a) for a in e[2])})"
    if k == "ext":
        return e[1]
    raise ValueError(e)


def show_stmts(stmts) -> str:
    out = []
    for s in stmts:
        k = s[0]
        if k == "decl":
            out.append(f"{show_type(s[1])} {s[2]};" if s[3] is None else f"{show_type(s[1])} {s[2]} = {show_expr(s[3])};")
        elif k == "assign":
            out.append(f"{s[1]} = {show_expr(s[2])};")
        elif k == "regassign":
            out.append(f"{s[1]} = {show_expr(s[2])};")
        elif k == "if":
            t = "if (" + show_expr(s[1]) + ") { " + show_stmts(s[2]) + " }"
            if s[3]:
                t += " else { " + show_stmts(s[3]) + " }"
            out.append(t)
        elif k == "for":
            out.append(f"for ({s[1]} = 0; {s[1]} < {s[2]}; {s[1]}++) {{ " + show_stmts(s[3]) + " }")
        elif k == "forc":
            out.append(f"for ({s[1]} = 0; {show_expr(s[2])}; {s[1]}++) {{ " + show_stmts(s[3]) + " }")
        elif k == "return":
            out.append(f"return {show_expr(s[1])};")
        elif k == "expr":
            out.append(show_expr(s[1]) + ";")
        else:
            raise ValueError(s)
    return " ".join(out)


# ------------------------------------------------------------------ native references of bundled sub-routines

def _clz(w):
    def f(x):
        x &= (1 << w) - 1
        return w - x.bit_length()
    return f


def _revbit(w):
    def f(x):
        x &= (1 << w) - 1
        return int(format(x, f"0{w}b")[::-1], 2)
    return f


def _conv_round(a, n):
    a = wrap(a, ("s", 32))
    n = wrap(n, ("s", 32))
    if n == 0:
        val = a
    elif (a & ((1 << (n - 1)) - 1)) == 0:
        val = a + (wrap((1 << n) & a, ("u", 32)) >> 1)
    else:
        val = a + (1 << (n - 1))
    return wrap(val >> n, ("s", 32))


U32, U64, U16, S32 = ("u", 32), ("u", 64), ("u", 16), ("s", 32)
BUNDLED = {
    "clz32": {"ret": U32, "params": [(U32, "t")], "native": _clz(32)},
    "clz64": {"ret": U64, "params": [(U64, "t")], "native": _clz(64)},
    "clo32": {"ret": U32, "params": [(U32, "x")], "native": lambda x: _clz(32)(~x)},
    "clo64": {"ret": U64, "params": [(U64, "x")], "native": lambda x: _clz(64)(~x)},
    "revbit16": {"ret": U16, "params": [(U16, "t")], "native": _revbit(16)},
    "revbit32": {"ret": U32, "params": [(U32, "t")], "native": _revbit(32)},
    "revbit64": {"ret": U64, "params": [(U64, "t")], "native": _revbit(64)},
    "fbrev": {"ret": U32, "params": [(U32, "addr")], "native": lambda a: (a & 0xFFFF0000) | _revbit(16)(a & 0xFFFF)},
    "conv_round": {"ret": S32, "params": [(S32, "a"), (S32, "n")], "native": _conv_round},
}
