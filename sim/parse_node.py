#!/venv/bin/python
"""Engine G node: one *fresh interpreter* (its PYTHONHASHSEED is chosen by the simulator) that
parses a history of texts through one of the real construction routes and reports, per position,
the exception type name or the canonical tree.

usage: PYTHONHASHSEED=<h> python parse_node.py <job.json>      (result JSON on stdout)
"""
import hashlib
import json
import os
import sys


def main():
    with open(sys.argv[1]) as f:
        job = json.load(f)
    verif = os.path.dirname(os.path.dirname(os.path.abspath(__file__)))
    repo = job["repo"]
    sys.path.insert(0, verif)
    sys.path.insert(0, repo)
    os.chdir(repo)
    devnull = open(os.devnull, "w")
    real_stdout = sys.stdout
    sys.stdout = devnull
    sys.stderr = devnull
    from sim import trees
    route, reuse = job["route"], job["reuse"]
    perturb = job.get("selftest_perturb")           # only used by the harness self-test

    parser_holder = {}

    def build():
        if route == "compiler":
            from rzilcompiler.ArchEnum import ArchEnum
            from rzilcompiler.Compiler import Compiler
            try:
                c = Compiler.__new__(Compiler)
                c.arch = ArchEnum.HEXAGON
                c.set_lark_parser()
                return c.parser
            except AttributeError:
                # construction code moved: fall back to the full constructor (3.7 s)
                return Compiler(ArchEnum.HEXAGON).parser
        if route == "direct":
            from lark import Lark
            with open(os.path.join(repo, "Resources", "Hexagon", "grammar.lark")) as f:
                return Lark("".join(f.readlines()), start="fbody", parser="earley")
        return None

    grammar = None
    if route == "parse_single":
        from rzilcompiler.Configuration import Conf, InputFile
        with open(Conf.get_path(InputFile.GRAMMAR, "Hexagon")) as f:
            grammar = "".join(f.readlines())

    out = []
    for i, text in enumerate(job["texts"]):
        try:
            if route == "parse_single":
                from rzilcompiler.Parser import InsnParsingBundle, parse_single
                res = parse_single(InsnParsingBundle(grammar, "n", [text]))["n"]
                if res.exception is not None:
                    out.append({"s": "exc", "e": res.exception.name})
                    continue
                tree = res.asts[0]
            else:
                if not reuse or "p" not in parser_holder:
                    parser_holder["p"] = build()
                tree = parser_holder["p"].parse(text)
            c = trees.canon(tree)
            if perturb is not None and i == perturb:
                c = ["T", "perturbed", [c]]
            d = hashlib.sha256(json.dumps(c).encode()).hexdigest()[:24]
            out.append({"s": "ok", "d": d, "tree": c if job.get("want_trees", True) else None})
        except Exception as e:  # noqa: BLE001
            out.append({"s": "exc", "e": type(e).__name__})
    sys.stdout = real_stdout
    json.dump({"hashseed": os.environ.get("PYTHONHASHSEED"), "results": out}, sys.stdout)
    sys.stdout.flush()


if __name__ == "__main__":
    main()
