"""Workload generator: behaviours in (roughly) the supported shortcode dialect.

The texts are *workload*, not oracle: whatever the compiler does with a text on a fresh instance
is the reference.  Most of them compile; some are deliberately outside the dialect.
"""
from __future__ import annotations

from .core import Chooser

INT_TYPES = ["int8_t", "uint8_t", "int16_t", "uint16_t", "int32_t", "uint32_t", "int64_t", "uint64_t"]
SRC32 = ["RsV", "RtV", "RuV"]
SRC64 = ["RssV", "RttV"]
DST32 = ["RdV", "ReV"]
RW32 = ["RxV", "RyV"]
PSRC = ["PsV", "PtV", "PuV", "PvV"]
PNEW = ["PuN", "PvN", "PtN"]
PDST = ["PdV", "PeV"]
PEXPL = ["P0", "P1", "P2", "P3"]
IMM = ["siV", "uiV", "riV", "UiV", "SiV"]
ALIAS_R = ["HEX_REG_ALIAS_PC", "HEX_REG_ALIAS_USR", "HEX_REG_ALIAS_LR", "HEX_REG_ALIAS_SP", "HEX_REG_ALIAS_GP",
           "HEX_REG_ALIAS_LC0", "HEX_REG_ALIAS_SA0"]
ALIAS_NEW = ["HEX_REG_ALIAS_USR_NEW", "HEX_REG_ALIAS_LC0_NEW"]
LOADS = ["mem_load_s8", "mem_load_u8", "mem_load_s16", "mem_load_u16", "mem_load_s32", "mem_load_u32", "mem_load_u64"]
STORES = ["mem_store_u8", "mem_store_u16", "mem_store_u32", "mem_store_u64"]
BINOPS = ["+", "-", "&", "|", "^", "*"]
CMPS = ["==", "!=", "<", ">", "<=", ">="]
LITS = ["0", "1", "2", "0x3", "7", "0xff", "16", "0x1f", "31", "0x7fffffff", "4"]


class BehGen:
    def __init__(self, ch: Chooser, allow_calls=True):
        self.ch = ch
        self.locals: list[tuple[str, str]] = []
        self.nloc = 0
        self.allow_calls = allow_calls

    # ---- expressions (32-bit flavoured)
    def atom(self):
        ch = self.ch
        k = ch.weighted([("src", 8), ("imm", 3), ("lit", 4), ("local", 4 if self.locals else 0), ("psrc", 2), ("pnew", 1),
                         ("alias", 1), ("aliasnew", 1), ("pexpl", 1), ("pexplnew", 1), ("rw", 1), ("nreg", 1)], "atom")
        if k == "src":
            return ch.choice(SRC32, "a")
        if k == "imm":
            return ch.choice(IMM, "a")
        if k == "lit":
            return ch.choice(LITS, "a")
        if k == "local":
            return ch.choice(self.locals, "a")[0]
        if k == "psrc":
            return ch.choice(PSRC, "a")
        if k == "pnew":
            return ch.choice(PNEW, "a")
        if k == "alias":
            return ch.choice(ALIAS_R, "a")
        if k == "aliasnew":
            return ch.choice(ALIAS_NEW, "a")
        if k == "pexpl":
            return ch.choice(PEXPL, "a")
        if k == "pexplnew":
            return ch.choice(PEXPL, "a") + "_NEW"
        if k == "rw":
            return ch.choice(RW32, "a")
        return "NsN"

    def expr(self, d=2):
        ch = self.ch
        if d <= 0:
            return self.atom()
        k = ch.weighted([("atom", 5), ("bin", 8), ("shift", 2), ("cmp", 2), ("neg", 1), ("not", 1), ("cast", 2), ("cond", 2),
                         ("load", 1), ("call", 2 if self.allow_calls else 0), ("post", 1 if self.locals else 0),
                         ("stmtexpr", 1), ("lnot", 1), ("land", 1)], "expr")
        if k == "atom":
            return self.atom()
        if k == "bin":
            return f"({self.expr(d - 1)} {ch.choice(BINOPS, 'op')} {self.expr(d - 1)})"
        if k == "shift":
            return f"({self.expr(d - 1)} {ch.choice(['<<', '>>'], 'sh')} {ch.choice(['1', '2', '4', '8', 'uiV'], 'sa')})"
        if k == "cmp":
            return f"({self.expr(d - 1)} {ch.choice(CMPS, 'cmp')} {self.expr(d - 1)})"
        if k == "neg":
            if self.allow_calls and ch.chance(1, 3, "negcall"):
                return f"(-{ch.choice(['clz32', 'clo32', 'revbit32'], 'nfn')}({self.atom()}))"
            return f"(-{self.atom()})"
        if k == "not":
            if ch.chance(1, 4, "notmacro"):
                return f"(~extract32({self.atom()}, 0, 8))"
            return f"(~{self.atom()})"
        if k == "lnot":
            return f"(!{self.atom()})"
        if k == "land":
            return f"({self.expr(d - 1)} {ch.choice(['&&', '||'], 'l')} {self.expr(d - 1)})"
        if k == "cast":
            return f"(({ch.choice(INT_TYPES, 'ty')}) {self.expr(d - 1)})"
        if k == "cond":
            return f"({self.expr(d - 1)} ? {self.expr(d - 1)} : {self.expr(d - 1)})"
        if k == "load":
            return f"{ch.choice(LOADS, 'ld')}(EA)"
        if k == "call":
            f = ch.choice(["clz32", "clo32", "revbit32", "clz64", "revbit16"], "fn")
            arg = ch.choice(SRC64, "a64") if f.endswith("64") else self.expr(d - 1)
            return f"{f}({arg})"
        if k == "post":
            return ch.choice(self.locals, "pl")[0] + ch.choice(["++", "--"], "pp")
        if k == "stmtexpr":
            self.nloc += 1
            v = f"se{self.nloc}"
            return f"({{ int32_t {v} = {self.expr(d - 1)}; {v}; }})"
        raise AssertionError(k)

    # ---- statements
    def stmt(self, d=2):
        ch = self.ch
        k = ch.weighted([("assign", 10), ("decl", 4), ("compound", 2 if self.locals else 0), ("pwrite", 3), ("pexplwrite", 2),
                         ("if", 3 if d > 0 else 0), ("ifelse", 2 if d > 0 else 0), ("for", 1 if d > 0 else 0),
                         ("store", 2), ("jump", 1), ("ea", 2), ("assign64", 2), ("aliaswrite", 1), ("empty", 1),
                         ("cancel", 1), ("post", 1 if self.locals else 0)], "stmt")
        if k == "assign":
            if ch.chance(1, 8, "chain"):
                return f"{ch.choice(DST32 + PDST + PEXPL, 'dst')} = {ch.choice(DST32 + RW32 + PDST + PEXPL, 'dst2')} = {self.expr(1)};"
            return f"{ch.choice(DST32 + RW32, 'dst')} = {self.expr(2)};"
        if k == "assign64":
            return f"RddV = {ch.choice(SRC64 + ['((int64_t) RsV)', '((uint64_t) RtV)'], 's64')};"
        if k == "decl":
            self.nloc += 1
            name = f"v{self.nloc}"
            ty = ch.choice(INT_TYPES, "lty")
            self.locals.append((name, ty))
            return f"{ty} {name} = {self.expr(1)};"
        if k == "compound":
            name = ch.choice(self.locals, "cl")[0]
            return f"{name} {ch.choice(['+=', '-=', '&=', '|=', '^=', '<<=', '>>=', '*='], 'cop')} {self.expr(1)};"
        if k == "pwrite":
            return f"{ch.choice(PDST, 'pd')} = {ch.choice(['0xff', '0x00', self.expr(1), '(' + self.expr(1) + ' ? 0xff : 0x00)'], 'pv')};"
        if k == "pexplwrite":
            return f"{ch.choice(PEXPL, 'pe')} = {ch.choice(['0xff', '0', self.expr(1)], 'pv')};"
        if k == "if":
            return f"if ({self.expr(1)}) {{ {self.stmt(d - 1)} }}"
        if k == "ifelse":
            return f"if ({self.expr(1)}) {{ {self.stmt(d - 1)} }} else {{ {self.stmt(d - 1)} }}"
        if k == "for":
            it = ch.choice(["i", "j", "k"], "it")
            return f"for ({it} = 0; {it} < {ch.choice(['2', '4', '8'], 'n')}; {it}++) {{ {self.stmt(d - 1)} }}"
        if k == "store":
            return f"{ch.choice(STORES, 'st')}(EA, {self.expr(1)});"
        if k == "jump":
            return f"JUMP({ch.choice(['riV', 'RsV', '(HEX_REG_ALIAS_PC) + riV', 'HEX_REG_ALIAS_LR'], 'jt')});"
        if k == "ea":
            return f"EA = {ch.choice(SRC32, 'eb')} + {ch.choice(IMM + ['0'], 'eo')};"
        if k == "aliaswrite":
            return f"{ch.choice(['HEX_REG_ALIAS_LR', 'HEX_REG_ALIAS_LC0', 'HEX_REG_ALIAS_SA0', 'HEX_REG_ALIAS_PC', 'HEX_REG_ALIAS_USR'], 'aw')} = {self.expr(1)};"
        if k == "empty":
            return ";"
        if k == "cancel":
            return "cancel_slot;"
        if k == "post":
            return ch.choice(self.locals, "pl")[0] + ch.choice(["++", "--"], "pp") + ";"
        raise AssertionError(k)

    def behaviour(self, nstmt=None):
        n = nstmt if nstmt is not None else self.ch.randint(1, 5, "nstmt")
        body = " ".join(self.stmt(2) for _ in range(n))
        return "{ " + body + " }"


# Inputs that must be *rejected*; placed early / in the middle / at the very end of a behaviour.
FAILING_CORES = [
    "while (RsV) { RdV = 1; }",
    "do { RdV = 1; } while (RsV);",
    "switch (RsV) { case 1: RdV = 1; }",
    "RdV = unknown_function_xyz(RsV);",
    "RdV = extract32(RsV);",
    "RdV = clz32(RsV, RtV);",
    "const int32_t cq = 1; cq = RsV;",
    "RdV = (float) RsV;",
    "int32_t;",
    "goto out;",
    "RdV = sizeof(int);",
    "RdV = RsV[1];",
    "break;",
    "RdV = *RsV;",
    "long xq = 1;",
    "RdV = OsN;",
    "if (OsN & 1) { RdV = RsV; }",
    "G0_NEW = RsV;",
    "RdV = VsV;",
    "clz32(7 / 2);",
    "RdV = clz32(7 / 2);",
    "RdV = 7 / 2;",
    "RdV = RsV; __NOP",
    "__NOP",
    "RdV = extract32(RsV, 0, 8, 1);",
    "n = RsV;",
    "RdV = n;",
]

PARSE_ERRORS = [
    "{",
    "{ RdV = ; }",
    "{ RdV = RsV }",
    "{ RdV = RsV; } }",
    "{ RdV = (RsV; }",
    "{ RdV = RsV $ 1; }",
    "{ @ }",
    "{ if (PuV { RdV = RsV; } }",
]

GOOD_FILL = ["RdV = RsV;", "EA = RsV + siV;", "int32_t f1 = RtV;", "PdV = 0xff;", "RxV = RxV + 1;",
             "RdV = clz32(RsV) + RtV;", "if (PuN) { RdV = RsV; }", "mem_store_u32(EA, RtV);", "P0 = 1;", "int32_t f2 = 0; f2++;"]


def failing_behaviours() -> list[str]:
    out = []
    for i, core in enumerate(FAILING_CORES):
        a, b = GOOD_FILL[i % len(GOOD_FILL)], GOOD_FILL[(i + 3) % len(GOOD_FILL)]
        out.append("{ " + core + " }")
        out.append("{ " + core + " " + a + " " + b + " }")
        out.append("{ " + a + " " + core + " " + b + " }")
        out.append("{ " + a + " " + b + " " + core + " }")
    return out


DEEP_TREES = [
    "{ " + "RdV = RdV + 1; " * 120 + "}",
    "{ " + "if (PuV) { " * 50 + "RdV = RsV;" + " }" * 50 + " }",
    "{ " + "if (PuN & 1) { " * 40 + "JUMP(riV);" + " }" * 40 + " }",
]

HANDWRITTEN = DEEP_TREES + [
    # predicate operands read / written through their operand letters, jumps to the next packet, explicit registers after .new reads
    "{ RdV = PdV; }", "{ RdV = PeV & 1; }", "{ PuV = RsV; }", "{ PvV = 0xff; }", "{ RdV = PxV; }", "{ PxV = PxV & PuV; }",
    "{ JUMP(get_npc(pkt)); }", "{ JUMP(get_npc(pkt) & ~3); }", "{ if (PuV & 1) { JUMP(get_npc(pkt)); } }", "{ JUMP((uint32_t) get_npc(pkt)); }",
    "{ if ((PvN & 1)) { P0 = 0xff; } }", "{ RdV = NsN; R3 = RsV; }", "{ RdV = P0_NEW; P1 = 0; }", "{ if (PuN & 1) { RdV = R2; } }",
    # a predicate written and read as .new in one part
    "{ P0 = 0xff; RdV = P0_NEW; }", "{ P1 = RsV; if ((P1_NEW & 1)) { JUMP(riV); } }", "{ P0 = 0xff; if (P0_NEW & 1) { RdV = RsV; } }",
    "{ RdV = P0_NEW; P0 = 0xff; }", "{ P2 = RsV; RdV = P3_NEW; }",
    # constant conditions with a bare operand in the arm that is not taken, statements without an effect,
    # break / continue / goto
    "{ RdV = (1 ? RsV : PvN); }", "{ RdV = 0 ? PuN : RsV; }", "{ RdV = (0 ? NsN : RsV); }", "{ RdV = (1 ? PuN : RsV); }",
    "{ if (((0 ? PvN : PuV) & 1)) { JUMP(riV); } }", "{ RdV = (0 ? mem_load_u32(RsV) : RtV); }",
    "{ mem_load_u32(RsV); }", "{ PvN; }", "{ RsV; }", "{ P0_NEW; }", "{ NsN; }", "{ RsV; PvN; }", "{ RdV = RsV; mem_load_u32(RsV); }",
    "{ for (i = 0; i < 4; i++) { if ((PuV & 1)) { break; } RdV = RdV + RsV; } }",
    "{ for (i = 0; i < 4; i++) { RdV = RsV; continue; } }", "{ goto done; }",
    "{ for (i = 0; i < 2; i++) { if (PuN & 1) { continue; } mem_store_u32(RsV, RtV); } }",
    "{ RdV = clz32(RsV) + RtV++; }",
    "{ RdV = clz32(RsV) + clz32(RtV); }",
    "{ int32_t q = 0; q++; }",
    "{ const int32_t c1 = 5; RdV = RsV + c1; }",
    "{ unsigned int u1 = RsV; RdV = u1; }",
    "{ P0 = 0xff; }", "{ P1 = RsV; }", "{ P2 = 0; P3 = 0xff; }",
    "{ PdV = 0xff; }", "{ PeV = PsV & PtV; }", "{ PdV = PuN; }",
    "{ if (PuN & 1) { RdV = RsV; } }",
    "{ RdV = P0_NEW; }", "{ RdV = HEX_REG_ALIAS_USR_NEW; }",
    "{ EA = RsV + siV; RdV = mem_load_s32(EA); }",
    "{ EA = RsV + siV; mem_store_u32(EA, RtV); }",
    "{ JUMP(riV); }", "{ if (P0 & 1) { JUMP(riV); } }",
    "{ RddV = ({ int64_t x = RssV; x; }); }",
    "{ RdV = (RsV ? ({ int32_t y = RtV; y; }) : 0); }",
    "{ for (i = 0; i < 4; i++) { RxV = RxV + i; } }",
    "{ RdV = RsV; }", "{}", "{ ; }", "{ cancel_slot; }",
    "{ int8_t a8 = (int8_t) RsV; uint64_t w = a8; RddV = w; }",
    "{ RdV = -1; }", "{ RdV = ~0; }", "{ RdV = -RsV; }", "{ RdV = +7; }",
    "{ RdV = (1 < 2) ? RsV : RtV; }",
    "{ RdV = 3 + 4; }",
    "{ RdV = revbit32(RsV); }", "{ RddV = revbit64(RssV); }", "{ RdV = clo32(RsV) + clo32(~RtV); }",
    "{ RdV = conv_round(RsV, uiV); }",
    "{ RxV = fcirc_add(bundle, RxV, siV, MuV, HEX_REG_ALIAS_CS0); }",
    "{ int32_t mask = 5; RdV = RsV & mask; }",
    "{ RdV = extract32(RsV, 0, 8); }", "{ RddV = sextract64(RssV, 0, 16); }", "{ RdV = deposit32(RsV, 0, 8, RtV); }",
    "{ RdV = bswap32(RsV); }",
    "{ HEX_REG_ALIAS_LR = RsV; }", "{ RdV = HEX_REG_ALIAS_PC; }", "{ R31 = RsV; }",
    "{ int32_t t1 = RsV; int32_t t2 = t1++; RdV = t1 + t2; }",
    "{ RdV = RsV; RdV = RtV; }",
    "{ PdV = (RsV == RtV) ? 0xff : 0x00; }",
    "{ if (RsV) { P0 = 0xff; } else { PdV = 0; } }",
    "{ RdV = NsN; }",
    "{ mem_store_u8(EA, NtN); }",
    # statement-expressions ending in a macro / call, macros and calls as ?: arms, unary operators on calls and macros
    "{ RdV = ({ RxV = 1; extract32(RsV, 0, 8); }); }",
    "{ RdV = PuV ? extract32(RsV, 0, 8) : RtV; }",
    "{ RdV = ({ int32_t w = RsV; clz32(w); }); }",
    "{ RdV = (RsV ? ({ RxV = 2; clz32(RtV); }) : 0); }",
    "{ RdV = -clz32(RsV); }", "{ RdV = -extract32(RsV, 0, 8); }", "{ RdV = ~clz32(RsV); }", "{ RdV = clz32(RsV); }",
    "{ RdV = extract32(RsV, 0, 8) + 1; }", "{ RddV = -sextract64(RssV, 0, 16); }", "{ RdV = -revbit32(RtV); }",
    # chained assignments, aliases whose name starts with p
    "{ P0 = P1 = 0xff; }", "{ PdV = RdV = RsV; }", "{ RdV = ReV = RsV + 1; }", "{ P3 = PdV = 0; }",
    "{ HEX_REG_ALIAS_PC = RsV; }", "{ HEX_REG_ALIAS_PKTCOUNT = RssV; }", "{ RdV = HEX_REG_ALIAS_PC + 4; }",
    "{ RdV = get_npc(pkt); }", "{ RdV = get_npc(pkt) + siV; }",
    # constant conditions, literal arithmetic of mixed types, several parent-less hybrids in one body
    "{ if (4 > 2) { RdV = RsV; } }", "{ if (0x10 == 16) JUMP(RsV); }", "{ if (1) { RdV = 1; } }", "{ if (2 < 1) { P0 = 1; } else { RdV = 2; } }",
    "{ RdV = -(1U + 2); }", "{ RdV = 1U + RsV; }", "{ RddV = RsV + RssV; }", "{ RdV = (RsV > RtV) == (RsV < RtV); }",
    "{ RdV = 1U + 2; }", "{ RddV = 1LL + RsV; }", "{ RdV = ~(2U - 1); }",
    "{ i++; k++; }", "{ int32_t a1 = 0; int32_t b1 = 0; a1++; b1++; RdV = a1 + b1; }", "{ i++; j++; k++; RdV = i; }",
    # every attribute in one part, the explicit predicate write first / in the middle / last
    "{ PdV = RsV; if ((PvN & 1)) { mem_store_u32(RsV, RtV); RdV = mem_load_u32(RsV + 4); JUMP(riV); } P2 = RtV; }",
    "{ P2 = RtV; PdV = RsV; if ((PvN & 1)) { mem_store_u32(RsV, RtV); RdV = mem_load_u32(RsV + 4); JUMP(riV); } }",
    "{ PdV = RsV; if ((PvN & 1)) { P1 = 1; mem_store_u32(RsV, RtV); RdV = mem_load_u32(RsV + 4); JUMP(riV); } P3 = 0; P0 = RtV; }",
    "{ if (PuN) { JUMP(riV); } EA = RsV; RdV = mem_load_s8(EA); mem_store_u8(EA, RtV); PeV = 1; P0 = 1; P1 = 1; P2 = 1; P3 = 1; }",
    # the same operand letter read plainly and as .new in one part
    "{ RdV = PvV; if ((PvN & 1)) { JUMP(riV); } }", "{ RdV = PuN; ReV = PuV; }", "{ if (PtV) { RdV = PtN; } }", "{ RdV = NsN + RsV; }",
    # register ++/-- and statement-expressions ending in a register, constant ?: dropping a plain register
    "{ RxV++; }", "{ RdV = ({ RxV = 1; RsV; }); }", "{ RdV = 1 ? RsV : RtV; }", "{ RdV = 0 ? RsV : RtV; }", "{ RdV = (2 > 1) ? RtV : RsV; }",
    "{ RddV = ({ RxV = 1; RssV; }); }", "{ RddV = 1 ? RssV : RttV; }",
]


def generated_catalogue(n: int, seed: int = 77) -> list[str]:
    out, seen = [], set()
    i = 0
    while len(out) < n and i < n * 4:
        ch = Chooser(seed=seed * 1000003 + i)
        i += 1
        t = BehGen(ch).behaviour()
        if t not in seen and len(t) < 420:
            seen.add(t)
            out.append(t)
    return out


# ---- use-shapes of one shared callee object (macro / sub-routine / call helper).  State that one use leaves on the
# shared Macro / SubRoutine / Parameter object is seen by the next, *different* use of the same object.
CALLEES = {
    "extract32": ("extract32(RsV, 0, 8)", 32), "sextract64": ("sextract64(RssV, 0, 16)", 64),
    "deposit32": ("deposit32(RsV, 0, 8, RtV)", 32), "bswap32": ("bswap32(RsV)", 32), "extract64": ("extract64(RssV, 0, 8)", 64),
    "clz32": ("clz32(RsV)", 32), "clo32": ("clo32(RsV)", 32), "revbit32": ("revbit32(RsV)", 32), "fbrev": ("fbrev(RsV)", 32),
    "clz64": ("clz64(RssV)", 64), "conv_round": ("conv_round(RsV, 2)", 32), "get_npc": ("get_npc(pkt)", 32),
}
SHAPES = ["{ D = X; }", "{ D = -X; }", "{ D = ~X; }", "{ D = PuV ? X : RtV; }", "{ D = ({ RxV = 1; X; }); }", "{ D = X + X; }",
          "{ if (X) { D = 1; } }", "{ D = (int8_t) X; }", "{ D = clz32(X); }", "{ int32_t v = X; D = v; }",
          "{ D = RsV ? ({ RxV = 2; X; }) : 0; }", "{ D = (X > 2) ? 1 : 0; }"]


REGISTER_USES = ["{ RxV++; }", "{ RxV--; }", "{ RdV = ({ RxV = 1; RsV; }); }", "{ RdV = 1 ? RsV : RtV; }", "{ RdV = 0 ? RsV : RtV; }",
                 "{ RdV = (2 > 1) ? RtV : RsV; }", "{ RddV = ({ RxV = 1; RssV; }); }", "{ RddV = 1 ? RssV : RttV; }", "{ RdV = RsV; }",
                 "{ RdV = RsV + RtV; }", "{ RxV = RxV + 1; }", "{ RdV = -RsV; }", "{ RdV = PuV ? RsV : RtV; }", "{ PdV = PsV; }",
                 "{ PdV = 1 ? PsV : PtV; }", "{ RdV = ({ PdV = 1; PsV; }); }"]


def callee_shapes() -> dict[str, list[str]]:
    out = {"registers": list(REGISTER_USES)}       # register operands share type objects too
    for name, (x, w) in CALLEES.items():
        out[name] = [sh.replace("X", x).replace("D", "RdV" if w == 32 else "RddV") for sh in SHAPES]
    return out
