#!/venv/bin/python
"""Sensitivity / false-alarm self-test.

For every patch under selftest/mutants/<prop>/ (or seeded/<id>/patch.diff with --seeded):
  scratch worktree of /repo outside /repo and /verif -> git apply -> quick check with
  VERIF_REPO=<scratch> -> expect VIOLATION (exit 1), or exit 0 for patches named benign_* ->
  remove the worktree.

usage: run_mutants.py <prop> [name ...] [--budget S] [--tests] [--jobs N]
"""
import argparse
import json
import os
import shutil
import subprocess
import sys
import tempfile
import time

VERIF = os.path.dirname(os.path.dirname(os.path.abspath(__file__)))
REPO = "/repo"


def run_one(prop, patch, budget, with_tests, workers):
    name = os.path.basename(patch).rsplit(".", 1)[0]
    if name == "patch":
        name = os.path.basename(os.path.dirname(patch))
    scratch = tempfile.mkdtemp(prefix=f"rzil-mut-{name}-", dir="/tmp")
    os.rmdir(scratch)
    res = {"name": name, "patch": os.path.relpath(patch, VERIF)}
    try:
        subprocess.run(["git", "-C", REPO, "worktree", "add", "--detach", "-q", scratch, "HEAD"], check=True,
                       stdout=subprocess.PIPE, stderr=subprocess.PIPE)
        # the working tree under test is /repo's *current* tree: carry uncommitted edits over
        diff = subprocess.run(["git", "-C", REPO, "diff", "HEAD"], stdout=subprocess.PIPE, check=True).stdout
        if diff.strip():
            subprocess.run(["git", "-C", scratch, "apply"], input=diff, check=True)
        r = subprocess.run(["git", "-C", scratch, "apply", patch], stdout=subprocess.PIPE, stderr=subprocess.STDOUT, text=True)
        if r.returncode != 0:
            res.update(status="patch-does-not-apply", output=r.stdout[-500:])
            return res
        if with_tests:
            t = subprocess.run(["/venv/bin/python", "-m", "pytest", "-q", "-x", "-p", "no:cacheprovider", "--timeout=900",
                                "--deselect", "rzilcompiler/Tests/TestTransformer.py::TestTransformerMeta::test_C4_and_and"],
                               cwd=scratch, stdout=subprocess.PIPE, stderr=subprocess.STDOUT, text=True,
                               env=dict(os.environ, PYTHONPATH=scratch))
            res["tests_pass"] = t.returncode == 0
            res["tests_tail"] = t.stdout.strip().splitlines()[-1:] if t.stdout else []
        env = dict(os.environ, VERIF_REPO=scratch, PYTHONHASHSEED="0")
        t0 = time.time()
        cmd = ["/venv/bin/python", os.path.join(VERIF, "checks", "run.py"), prop, "--tier", "quick"]
        if budget:
            cmd += ["--budget", str(budget)]
        if workers:
            cmd += ["--workers", str(workers)]
        c = subprocess.run(cmd, env=env, stdout=subprocess.PIPE, stderr=subprocess.STDOUT, text=True, timeout=3600)
        res["exit"] = c.returncode
        res["wall_s"] = round(time.time() - t0, 1)
        lines = c.stdout.strip().splitlines()
        res["violation_lines"] = [l for l in lines if l.startswith("VIOLATION")][:4]
        res["signatures"] = [l.strip() for l in lines if l.strip().startswith("signature=")][:4]
        res["known"] = [l for l in lines if l.startswith("KNOWN-FINDING")][:4]
        res["harness"] = [l for l in lines if l.startswith("HARNESS-ERROR")][:4]
        res["tail"] = lines[-3:]
        benign = name.startswith("benign")
        if benign:
            res["status"] = "ok-silent" if c.returncode == 0 else "FALSE-ALARM" if c.returncode == 1 else "HARNESS-ERROR"
        else:
            res["status"] = "caught" if c.returncode == 1 else "MISSED" if c.returncode == 0 else "HARNESS-ERROR"
        return res
    finally:
        subprocess.run(["git", "-C", REPO, "worktree", "remove", "--force", scratch], stdout=subprocess.PIPE, stderr=subprocess.PIPE)
        shutil.rmtree(scratch, ignore_errors=True)
        subprocess.run(["git", "-C", REPO, "worktree", "prune"], stdout=subprocess.PIPE, stderr=subprocess.PIPE)


def main():
    ap = argparse.ArgumentParser()
    ap.add_argument("prop")
    ap.add_argument("names", nargs="*")
    ap.add_argument("--budget", type=float, default=None)
    ap.add_argument("--workers", type=int, default=None)
    ap.add_argument("--tests", action="store_true")
    ap.add_argument("--seeded", action="store_true")
    ap.add_argument("--check", default=None, help="run this property's check instead of the patch's own property")
    args = ap.parse_args()
    patches = []
    if args.seeded:
        root = os.path.join(VERIF, "seeded")
        for d in sorted(os.listdir(root)):
            meta = os.path.join(root, d, "meta.json")
            if os.path.exists(meta) and json.load(open(meta)).get("property") == args.prop:
                patches.append(os.path.join(root, d, "patch.diff"))
    else:
        root = os.path.join(VERIF, "selftest", "mutants", args.prop)
        patches = [os.path.join(root, f) for f in sorted(os.listdir(root)) if f.endswith(".patch")]
    if args.names:
        patches = [p for p in patches if any(n in p for n in args.names)]
    results = []
    for p in patches:
        r = run_one(args.check or args.prop, p, args.budget, args.tests, args.workers)
        if args.check:
            r["checked_with"] = args.check
            r["name"] = r["name"] + "@" + args.check
        results.append(r)
        print(json.dumps(r), flush=True)
    # keep the outcome next to the patches: selftest/logs/<prop>-<own|seeded>.jsonl (entries replaced by name)
    logdir = os.path.join(VERIF, "selftest", "logs")
    os.makedirs(logdir, exist_ok=True)
    logpath = os.path.join(logdir, f"{args.prop}-{'seeded' if args.seeded else 'own'}.jsonl")
    old = {}
    if os.path.exists(logpath):
        for line in open(logpath):
            try:
                d = json.loads(line)
                old[d["name"]] = d
            except ValueError:
                pass
    head = subprocess.run(["git", "-C", REPO, "rev-parse", "--short", "HEAD"], stdout=subprocess.PIPE, text=True).stdout.strip()
    vhead = subprocess.run(["git", "-C", VERIF, "rev-parse", "--short", "HEAD"], stdout=subprocess.PIPE, text=True).stdout.strip()
    for r in results:
        r = {k: v for k, v in r.items() if k not in ("tail",)}
        r["repo_head"], r["verif_head"], r["budget"] = head, vhead, args.budget
        old[r["name"]] = r
    with open(logpath, "w") as f:
        for name in sorted(old):
            f.write(json.dumps(old[name]) + "\n")
    bad = [r for r in results if r.get("status") not in ("caught", "ok-silent")]
    print(f"SUMMARY {args.prop}: {len(results) - len(bad)}/{len(results)} as expected; problems: {[r['name'] + ':' + str(r.get('status')) for r in bad]}")
    return 1 if bad else 0


if __name__ == "__main__":
    sys.exit(main())
