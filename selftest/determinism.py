#!/venv/bin/python
"""Determinism proof: the same run indices executed in different processes, under different
PYTHONHASHSEED values and with different process counts must give identical event-log digests
and verdicts.

usage: determinism.py <prop> [--n 64] [--procs 8] [--hashseeds 0,1,4242]
Each (hash seed, pass) re-executes indices 0..n-1 split over `procs` fresh interpreters; pass 2
uses a different split (procs+3), so a run never shares a process with the same neighbours.
"""
import argparse
import os
import subprocess
import sys
import time

VERIF = os.path.dirname(os.path.dirname(os.path.abspath(__file__)))
RUN = os.path.join(VERIF, "checks", "run.py")


def sweep(prop, n, procs, hashseed):
    chunks = []
    step = (n + procs - 1) // procs
    for a in range(0, n, step):
        chunks.append((a, min(n, a + step)))
    ps = []
    for a, b in chunks:
        env = dict(os.environ, PYTHONHASHSEED=str(hashseed))
        ps.append(subprocess.Popen([sys.executable, RUN, prop, "--digests", f"{a}..{b}"], env=env,
                                   stdout=subprocess.PIPE, stderr=subprocess.DEVNULL, text=True))
    out = {}
    for p in ps:
        so, _ = p.communicate(timeout=3600)
        if p.returncode != 0:
            raise SystemExit(f"digest run failed rc={p.returncode}")
        for line in so.splitlines():
            if line.startswith("DIGEST "):
                _, idx, dg, nv = line.split()
                out[int(idx)] = (dg, nv)
    return out


def main():
    ap = argparse.ArgumentParser()
    ap.add_argument("prop")
    ap.add_argument("--n", type=int, default=64)
    ap.add_argument("--procs", type=int, default=8)
    ap.add_argument("--hashseeds", default="0,1,4242")
    args = ap.parse_args()
    t0 = time.time()
    ref = None
    pairs = 0
    for hs in args.hashseeds.split(","):
        for procs in (args.procs, args.procs + 3):
            got = sweep(args.prop, args.n, procs, hs)
            if len(got) != args.n:
                raise SystemExit(f"missing digests: {len(got)} of {args.n}")
            if ref is None:
                ref = got
                continue
            diff = [i for i in range(args.n) if got[i] != ref[i]]
            pairs += args.n
            if diff:
                print(f"NONDETERMINISTIC {args.prop}: indices {diff[:10]} differ (hashseed={hs}, procs={procs})")
                for i in diff[:3]:
                    print("  ", i, ref[i], got[i])
                return 1
    print(f"DETERMINISTIC {args.prop}: {args.n} indices x {len(args.hashseeds.split(',')) * 2} executions, "
          f"{pairs} pairwise comparisons equal, {time.time() - t0:.0f}s")
    return 0


if __name__ == "__main__":
    sys.exit(main())
