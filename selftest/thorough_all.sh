#!/bin/bash
# every thorough check once (about 25 min each on an idle 16-core machine); optional argument: budget in seconds per check
cd "$(dirname "$0")/.."
B=${1:+--budget $1}
/venv/bin/python checks/setup.py >/dev/null 2>&1
for p in C18 C14 C13 C08 C17; do
  out=$(timeout 5400 /venv/bin/python checks/run.py $p --tier thorough $B 2>&1); rc=$?
  echo "$p rc=$rc $(echo "$out" | grep "^\[$p\]" | tail -1)"
  echo "$out" | grep -E "VIOLATION|HARNESS|KNOWN|signature" | cut -c1-300 | head -8
  cp evidence/$p.json evidence/$p.thorough.json 2>/dev/null
done
