#!/venv/bin/python
"""Every listed finding has a committed replay file: status=known must still reproduce with the
listed signature, status=fixed must no longer reproduce."""
import json
import os
import subprocess
import sys

VERIF = os.path.dirname(os.path.dirname(os.path.abspath(__file__)))


def main():
    kf = json.load(open(os.path.join(VERIF, "known_findings.json")))["findings"]
    bad = 0
    for f in kf:
        path = os.path.join(VERIF, f["replay"])
        r = subprocess.run(["/venv/bin/python", os.path.join(VERIF, "checks", "run.py"), f["property"], "--replay", path],
                           stdout=subprocess.PIPE, stderr=subprocess.STDOUT, text=True)
        reproduced = r.returncode == 1
        ok = reproduced if f["status"] == "known" else r.returncode == 0
        print(f"{f['id']:5} {f['property']} {f['status']:6} replay-exit={r.returncode} {'ok' if ok else 'UNEXPECTED'}")
        bad += not ok
    return 1 if bad else 0


if __name__ == "__main__":
    sys.exit(main())
