#!/venv/bin/python
"""Writes selftest/RESULTS.md from selftest/logs/*.jsonl (outcomes of run_mutants.py) and seeded/*/meta.json."""
import glob
import json
import os

VERIF = os.path.dirname(os.path.dirname(os.path.abspath(__file__)))


def main():
    out = ["# Sensitivity and false-alarm results", "",
           "Produced by `selftest/run_mutants.py` (quick tier, scratch worktree of /repo + one patch, `VERIF_REPO=<scratch>`).",
           "`caught` = the check exited 1 with a VIOLATION line; `ok-silent` = a behaviour-preserving patch (`benign_*`) raised no alarm.",
           "Determinism: `selftest/determinism.py` (96 run indices x 3 hash seeds x 2 process splits per engine), see the end.", ""]
    for kind, title in (("own", "Own mutants (selftest/mutants/<prop>/*.patch)"), ("seeded", "Changes written by independent sub-agents (seeded/<id>/)")):
        out += [f"## {title}", ""]
        for path in sorted(glob.glob(os.path.join(VERIF, "selftest", "logs", f"*-{kind}.jsonl"))):
            prop = os.path.basename(path).split("-")[0]
            rows = [json.loads(l) for l in open(path) if l.strip()]
            # entries of patches that no longer exist (renamed / withdrawn) are dropped
            rows = [r for r in rows if os.path.exists(os.path.join(VERIF, r.get("patch", "")))]
            # a change filed under this property but located in another property's code may be caught by that check
            via_other = {r["name"].split("@")[0]: r["name"].split("@")[1] for r in rows if "@" in r["name"] and r.get("status") == "caught"}
            for r in rows:
                if r.get("status") == "MISSED" and r["name"] in via_other:
                    r["status"] = f"not by this check; caught by {via_other[r['name']]}'s check"
            rows = [r for r in rows if "@" not in r["name"]]
            # seeded changes that a later repair of /repo made harmless (their own demonstration passes with the patch applied)
            for r in rows:
                mp_ = os.path.join(VERIF, "seeded", r["name"], "meta.json")
                if os.path.exists(mp_) and json.load(open(mp_)).get("neutralised"):
                    r["status"] = "neutralised by a later fix in /repo (no longer breaks the property); was caught before"
            good = sum(1 for r in rows if r.get("status") in ("caught", "ok-silent") or str(r.get("status")).startswith(("not by this check", "neutralised")))
            out += [f"### {prop}: {good}/{len(rows)} as expected", "", "| change | outcome | passes the test suite | signature(s) reported | what it needs |", "|---|---|---|---|---|"]
            for r in rows:
                sigs = "; ".join(sorted({s.split(" key=")[0].replace("signature=", "") for s in r.get("signatures", [])}))[:160]
                needs = ""
                mp = os.path.join(VERIF, "seeded", r["name"], "meta.json")
                if os.path.exists(mp):
                    m = json.load(open(mp))
                    needs = (m.get("needs") or "")[:220].replace("|", "/").replace("\n", " ")
                    tp = m.get("confirmed_by_me", {}).get("tests_patched", {}).get("exit") == 0
                else:
                    tp = r.get("tests_pass")
                out.append(f"| {r['name']} | {r.get('status')} | {'yes' if tp else ('no' if tp is False else 'n/a')} | {sigs} | {needs} |")
            out.append("")
    # detection outcome into each seeded change's meta.json
    for path in sorted(glob.glob(os.path.join(VERIF, "selftest", "logs", "*-seeded.jsonl"))):
        for r in (json.loads(l) for l in open(path) if l.strip()):
            base = r["name"].split("@")[0]
            mp = os.path.join(VERIF, "seeded", base, "meta.json")
            if not os.path.exists(mp):
                continue
            m = json.load(open(mp))
            det_ = m.setdefault("detection", {})
            det_[r.get("checked_with") or m.get("property")] = {
                "status": r.get("status"), "wall_s": r.get("wall_s"),
                "signatures": sorted({x.split(" key=")[0].replace("signature=", "") for x in r.get("signatures", [])})[:4],
                "verif_head": r.get("verif_head"), "cmd": "selftest/run_mutants.py %s %s --seeded" % (m.get("property"), base)}
            json.dump(m, open(mp, "w"), indent=1)
    det = os.path.join(VERIF, "selftest", "logs", "determinism.txt")
    if os.path.exists(det):
        out += ["## Determinism", "", "```", open(det).read().strip(), "```", ""]
    kn = os.path.join(VERIF, "selftest", "logs", "known.txt")
    if os.path.exists(kn):
        out += ["## Known / fixed findings replayed on the current tree (selftest/check_known.py)", "", "```", open(kn).read().strip(), "```", ""]
    open(os.path.join(VERIF, "selftest", "RESULTS.md"), "w").write("\n".join(out) + "\n")
    print("written", len(out), "lines")


if __name__ == "__main__":
    main()
