#!/venv/bin/python
"""Confirms a change written by a sub-agent before it is kept under /verif/seeded/<id>/:
  clean scratch worktree: demo.py exits 0
  with patch.diff applied: demo.py exits non-zero AND the complete existing test suite passes
Only then copies patch.diff, demo.py, meta.json (extended with what was run) to seeded/<id>/.

usage: confirm_seeded.py <dir with patch.diff demo.py meta.json> <id>
"""
import json
import os
import shutil
import subprocess
import sys
import tempfile
import time

VERIF = os.path.dirname(os.path.dirname(os.path.abspath(__file__)))
REPO = "/repo"


def run(cmd, cwd, env=None, timeout=1800):
    r = subprocess.run(cmd, cwd=cwd, env=env, stdout=subprocess.PIPE, stderr=subprocess.STDOUT, text=True, timeout=timeout)
    return r.returncode, r.stdout


def main():
    src, sid = sys.argv[1], sys.argv[2]
    meta = json.load(open(os.path.join(src, "meta.json")))
    scratch = tempfile.mkdtemp(prefix=f"rzil-seed-{sid}-", dir="/tmp")
    os.rmdir(scratch)
    ran = {}
    try:
        subprocess.run(["git", "-C", REPO, "worktree", "add", "--detach", "-q", scratch, "HEAD"], check=True)
        env = dict(os.environ, PYTHONPATH=scratch, PYTHONHASHSEED="0")
        shutil.copy(os.path.join(src, "demo.py"), os.path.join(scratch, "demo.py"))
        rc0, out0 = run(["/venv/bin/python", "demo.py"], scratch, env)
        ran["demo_clean"] = {"exit": rc0, "tail": out0.strip().splitlines()[-2:]}
        rc, out = run(["git", "apply", os.path.join(os.path.abspath(src), "patch.diff")], scratch)
        ran["apply"] = {"exit": rc, "tail": out.strip().splitlines()[-2:]}
        rc1, out1 = run(["/venv/bin/python", "demo.py"], scratch, env)
        ran["demo_patched"] = {"exit": rc1, "tail": out1.strip().splitlines()[-3:]}
        t0 = time.time()
        rct, outt = run(["/venv/bin/python", "-m", "pytest", "-q", "-p", "no:cacheprovider", "--timeout=900"], scratch, env)
        ran["tests_patched"] = {"exit": rct, "tail": outt.strip().splitlines()[-1:], "wall_s": round(time.time() - t0)}
        ok = rc0 == 0 and rc == 0 and rc1 != 0 and rct == 0
        ran["confirmed"] = ok
        ran["base_commit"] = subprocess.run(["git", "-C", REPO, "rev-parse", "--short", "HEAD"], stdout=subprocess.PIPE, text=True).stdout.strip()
    finally:
        subprocess.run(["git", "-C", REPO, "worktree", "remove", "--force", scratch], stdout=subprocess.PIPE, stderr=subprocess.PIPE)
        shutil.rmtree(scratch, ignore_errors=True)
        subprocess.run(["git", "-C", REPO, "worktree", "prune"])
    print(json.dumps(ran, indent=1))
    if not ran.get("confirmed"):
        print("NOT CONFIRMED - not kept")
        return 1
    dst = os.path.join(VERIF, "seeded", sid)
    os.makedirs(dst, exist_ok=True)
    shutil.copy(os.path.join(src, "patch.diff"), dst)
    shutil.copy(os.path.join(src, "demo.py"), dst)
    meta["id"] = sid
    meta["confirmed_by_me"] = ran
    json.dump(meta, open(os.path.join(dst, "meta.json"), "w"), indent=1)
    print("kept as", dst)
    return 0


if __name__ == "__main__":
    sys.exit(main())
