#!/bin/bash
# Soak: every quick check under many VERIF_SEED values on the unchanged tree; any exit code other than 0 is a problem.
# usage: soak.sh <first seed> <last seed> [budget seconds]
cd "$(dirname "$0")/.."
/venv/bin/python checks/setup.py >/dev/null 2>&1
B=${3:-40}
for seed in $(seq $1 $2); do
  for p in C18 C14 C13 C08 C17; do
    out=$(VERIF_SEED=$seed timeout 1200 /venv/bin/python checks/run.py $p --tier quick --budget $B 2>&1)
    rc=$?
    line=$(echo "$out" | grep "^\[$p\]" | tail -1)
    echo "seed=$seed $p rc=$rc $line"
    if [ $rc -ne 0 ]; then echo "$out" | grep -E "VIOLATION|HARNESS|signature" | head -5; fi
  done
done
